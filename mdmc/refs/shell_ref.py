"""Reference implementations for C16, written from the property statement (no regex, no slicing tricks)."""
from __future__ import annotations

import base64

WORD = set(b"abcdefghijklmnopqrstuvwxyzABCDEFGHIJKLMNOPQRSTUVWXYZ0123456789_")


def strip_ref(cmd: bytes) -> bytes:
    """cmd.exe caret removal as stated in C16: a three-state transducer (normal / in-quotes / after-caret)."""
    out = bytearray()
    NORMAL, QUOTED = 0, 1
    state = NORMAL
    i, n = 0, len(cmd)
    while i < n:
        c = cmd[i]
        if state == NORMAL and c == 0x5E:  # caret outside quotes
            if i + 1 >= n:
                break  # a trailing caret is dropped
            if cmd[i + 1] == 0x0D and i + 2 < n and cmd[i + 2] == 0x0A:
                # caret CR LF: line continuation, all three vanish and the character after them is kept literally
                if i + 3 < n:
                    out.append(cmd[i + 3])
                i += 4
                continue
            out.append(cmd[i + 1])  # next character kept literally (no quote toggling, no CR handling)
            i += 2
            continue
        if c == 0x22:
            state = QUOTED if state == NORMAL else NORMAL
        elif c == 0x0D:
            state = NORMAL  # a CR ends a quoted region
        out.append(c)
        i += 1
    return bytes(out)


# ---- cmd token ----------------------------------------------------------------------------------------
_PATH = b"c:\\windows\\system32\\"


def _bare_cmd(low: bytes, p: int):
    """c ^? m ^? d at p (lower-cased data) -> length or None."""
    i = p
    for k, ch in enumerate(b"cmd"):
        if i >= len(low) or low[i] != ch:
            return None
        i += 1
        if k < 2 and i < len(low) and low[i] == 0x5E:
            i += 1
    return i - p


def cmd_token_at(data: bytes, p: int):
    """Length of a cmd token starting at p, or None.  Quoted form is preferred (as the leftmost-first alternative)."""
    low = data.lower()
    n = len(data)
    # quoted: " [C:\WINDOWS\system32\] cmd [?exe] "
    if low[p : p + 1] == b'"':
        for pre in (_PATH, b""):
            q = p + 1
            if low[q : q + len(pre)] == pre:
                q += len(pre)
                if low[q : q + 3] == b"cmd" and (q == 0 or low[q - 1] not in WORD):
                    r = q + 3
                    cands = []
                    if r + 4 <= n and low[r + 1 : r + 4] == b"exe" and low[r] != 0x0A:
                        cands.append(r + 4)
                    cands.append(r)
                    for e in cands:
                        if low[e : e + 1] == b'"':
                            return e + 1 - p
    # bare: [C:\Windows\System32\] \b c^?m^?d \b
    for pre in (_PATH, b""):
        if low[p : p + len(pre)] == pre:
            q = p + len(pre)
            if q < n and (q == 0 or low[q - 1] not in WORD):
                ln = _bare_cmd(low, q)
                if ln is not None:
                    e = q + ln
                    if e == n or low[e] not in WORD:
                        return e - p
    return None


def ref_cmd_hits(data: bytes):
    """[(start, end, value, label)] expected from the cmd decoder on `data` (C16 clause 2)."""
    out = []
    p = 0
    n = len(data)
    while p < n:
        ln = cmd_token_at(data, p) if data[p] != 0 else None
        if ln is None:
            p += 1
            continue
        seg_end = data.find(b"\0", p)
        if seg_end < 0:
            seg_end = n
        if p + ln > seg_end:  # token would run across a NUL (impossible for these tokens, kept for clarity)
            p += 1
            continue
        end = seg_end
        bal = 0
        for i in range(p, seg_end):
            if data[i] == 0x29:
                bal -= 1
                if bal < 0:
                    end = i
                    break
            elif data[i] == 0x28:
                bal += 1
        span = data[p:end]
        value = strip_ref(span)
        label = "unescape.shell.carets" if value != span else ""
        value = repair_quote(value)
        out.append((p, end, value, label))
        p = seg_end + 1
    return out


def repair_quote(value: bytes) -> bytes:
    """Drop a stray closing quote glued to the command token (first whitespace-delimited token)."""
    toks = value.split()
    if not toks:
        return value
    t = toks[0]
    for q in (b'"', b"'"):
        if t.endswith(q) and not t.startswith(q):
            at = value.find(t) + len(t) - 1
            return value[:at] + value[at + 1 :]
    return value


# ---- encoded powershell --------------------------------------------------------------------------------


def ps_encoded_value(invocation_tokens, b64text: bytes) -> bytes:
    """Value of an encoded-command invocation: the value-less part of the invocation, '-Command', decoded text."""
    decoded = base64.b64decode(b64text).decode("utf-16", errors="ignore").encode()
    return b" ".join(invocation_tokens) + b" -Command " + decoded
