"""Reference implementations for C10 / C12 written from the statements: RFC 3986 component splitter, percent
normaliser / decoder, dot-segment remover that never pops the root, inet_aton-style IPv4 parser, Windows path
normaliser.  Deliberately without urllib / ipaddress / ntpath."""
from __future__ import annotations

HEXD = b"0123456789abcdefABCDEF"
UNRESERVED = set(b"abcdefghijklmnopqrstuvwxyzABCDEFGHIJKLMNOPQRSTUVWXYZ0123456789-._~")


def pct_decode(t: bytes) -> bytes:
    out = bytearray()
    i = 0
    while i < len(t):
        if t[i] == 0x25 and i + 2 < len(t) + 0 and len(t) - i >= 3 and t[i + 1] in HEXD and t[i + 2] in HEXD:
            out.append(int(t[i + 1 : i + 3], 16))
            i += 3
        else:
            out.append(t[i])
            i += 1
    return bytes(out)


def pct_normalise(t: bytes) -> bytes:
    """Decode escapes of unreserved characters, upper-case every other escape."""
    out = bytearray()
    i = 0
    while i < len(t):
        if t[i] == 0x25 and len(t) - i >= 3 and t[i + 1] in HEXD and t[i + 2] in HEXD:
            b = int(t[i + 1 : i + 3], 16)
            if b in UNRESERVED:
                out.append(b)
            else:
                out += b"%" + t[i + 1 : i + 3].upper()
            i += 3
        else:
            out.append(t[i])
            i += 1
    return bytes(out)


def split_url(v: bytes):
    """-> dict name -> (start, end) of each component's text in v (only those syntactically present)."""
    parts = {}
    c = v.find(b":")
    if c <= 0:
        return None
    parts["scheme"] = (0, c)
    i = c + 1
    if v[i : i + 2] != b"//":
        return None
    i += 2
    j = i
    while j < len(v) and v[j] not in b"/?#":
        j += 1
    parts["authority"] = (i, j)
    k = j
    while k < len(v) and v[k] not in b"?#":
        k += 1
    if k > j:
        parts["path"] = (j, k)
    if k < len(v) and v[k] == 0x3F:
        m = k + 1
        while m < len(v) and v[m] != 0x23:
            m += 1
        if m > k + 1:
            parts["query"] = (k + 1, m)
        k = m
    if k < len(v) and v[k] == 0x23:
        if len(v) > k + 1:
            parts["fragment"] = (k + 1, len(v))
    # authority
    a, b = parts["authority"]
    auth = v[a:b]
    at = auth.rfind(b"@")
    hs = a
    if at >= 0:
        ui = auth[:at]
        col = ui.find(b":")
        if col < 0:
            if ui:
                parts["username"] = (a, a + at)
        else:
            if col > 0:
                parts["username"] = (a, a + col)
            if col + 1 < len(ui):
                parts["password"] = (a + col + 1, a + at)
        hs = a + at + 1
    hostport = v[hs:b]
    he = b
    # trailing :digits* is the port
    p = len(hostport)
    while p > 0 and hostport[p - 1 : p].isdigit():
        p -= 1
    if p > 0 and hostport[p - 1 : p] == b":":
        he = hs + p - 1
    if he > hs:
        parts["host"] = (hs, he)
    return parts


def parse_ipv4_loose(t: bytes):
    """inet_aton semantics: 1-4 parts, each decimal / 0x hex / leading-0 octal; the last part fills the remaining bytes.
    Returns the canonical dotted quad or None."""
    try:
        s = t.decode("ascii")
    except UnicodeDecodeError:
        return None
    if not s or s != s.strip() or any(ch.isspace() for ch in s):
        return None
    ps = s.split(".")
    if not 1 <= len(ps) <= 4:
        return None
    vals = []
    for p in ps:
        if not p:
            return None
        try:
            if p[:2] in ("0x", "0X"):
                if len(p) == 2 or not all(c in "0123456789abcdefABCDEF" for c in p[2:]):
                    return None
                vals.append(int(p[2:], 16))
            elif p[0] == "0" and len(p) > 1:
                if not all(c in "01234567" for c in p[1:]):
                    return None
                vals.append(int(p[1:], 8))
            else:
                if not p.isdigit() or not p.isascii():
                    return None
                vals.append(int(p))
        except ValueError:
            return None
    for x in vals[:-1]:
        if x > 255:
            return None
    rest = 4 - (len(vals) - 1)
    if vals[-1] >= 256**rest:
        return None
    n = 0
    for x in vals[:-1]:
        n = n * 256 + x
    n = n * 256**rest + vals[-1]
    return b"%d.%d.%d.%d" % (n >> 24 & 255, n >> 16 & 255, n >> 8 & 255, n & 255)


def is_canonical_ipv4(t: bytes) -> bool:
    ps = t.split(b".")
    if len(ps) != 4:
        return False
    for p in ps:
        if not p or not p.isdigit() or len(p) > 3 or (len(p) > 1 and p[0:1] == b"0") or int(p) > 255:
            return False
    return True


def norm_path(t: bytes):
    """(value, removed?) -- percent-decode each segment (keeping a decoded '/' as %2F), drop '.' segments, let every '..'
    cancel the nearest remaining segment before it but never the root."""
    absolute = t.startswith(b"/")
    raw = t.split(b"/")
    segs = [pct_decode(s).replace(b"/", b"%2F") for s in (raw[1:] if absolute else raw)]
    out = []
    removed = False
    for s in segs:
        if s == b".":
            removed = True
        elif s == b"..":
            removed = True
            if out:
                out.pop()
        else:
            out.append(s)
    return (b"/" if absolute else b"") + b"/".join(out), removed


# ---- Windows paths -----------------------------------------------------------------------------------------


def win_split(p: bytes):
    r"""-> (unclimbable prefix, absolute?, segments) or None when the form is outside what the reference defines."""
    low = p.lower()
    segs = p.split(b"\\")
    if low.startswith((b"\\\\.\\", b"\\\\?\\")):
        rest = segs[3:]
        if not rest:
            return None
        if rest[0].upper() == b"UNC":
            if len(rest) < 4 or rest[1] in (b".", b"..", b"") or rest[2] in (b".", b"..", b""):
                return None
            k = 3 + 3
        else:
            if rest[0] in (b".", b"..", b""):
                return None
            k = 3 + 1
        return b"\\".join(segs[:k]) + b"\\", True, segs[k:]
    if low.startswith(b"\\\\"):
        if len(segs) < 5 or segs[2] in (b"", b".", b"..") or segs[3] in (b"", b".", b".."):
            return None
        return b"\\".join(segs[:4]) + b"\\", True, segs[4:]
    if len(p) >= 2 and p[1:2] == b":" and p[0:1].isalpha():
        if p[2:3] == b"\\":
            return p[:3], True, p[3:].split(b"\\")
        return p[:2], False, p[2:].split(b"\\")
    if p.startswith(b"\\"):
        return b"\\", True, p[1:].split(b"\\")
    return b"", False, segs


def win_norm(p: bytes):
    sp = win_split(p)
    if sp is None:
        return None
    prefix, absolute, segs = sp
    out = []
    for s in segs:
        if s == b"." or s == b"":
            continue
        if s == b"..":
            if out and out[-1] != b"..":
                out.pop()
            elif not absolute:
                out.append(s)
        else:
            out.append(s)
    res = prefix + b"\\".join(out)
    if not out:
        # nothing left: ntpath keeps the bare prefix ("C:\\", "\\") or "." for an empty relative path
        return None
    return res
