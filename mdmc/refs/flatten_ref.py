"""Reference flatten written from the C19 statement in a different shape than the implementation:
selection of the substituted children first, then a right-to-left splice."""
from __future__ import annotations


def ref_flatten(value: bytes, children) -> bytes:
    """children: list of (type, value, label, start, end, grandchildren) ordered by start."""
    selected = []
    last_end = 0
    for (t, v, _o, s, e, g) in children:
        if s < last_end:
            continue  # starts before the end of the last substituted one
        flat = ref_flatten(v, g)
        if flat == value[s:e]:
            continue  # equals the text it covers: left alone (and does not block later children)
        selected.append((s, e, b'"' + flat + b'"' if t.endswith("string") else flat))
        last_end = e
    out = value
    for s, e, piece in reversed(selected):
        out = out[:s] + piece + out[e:]
    return out


def substituted_overlap(value: bytes, children) -> bool:
    """True when, at any level, two children that differ from their text overlap (then squash_replace and flatten may differ)."""
    subs = []
    for (t, v, _o, s, e, g) in children:
        if substituted_overlap(v, g):
            return True
        flat = ref_flatten(v, g)
        if flat != value[s:e]:
            subs.append((s, e))
    for i in range(len(subs)):
        for j in range(i + 1, len(subs)):
            if subs[j][0] < subs[i][1]:
                return True
    return False


def spec_of(node):
    return (node.type, node.value, node.obfuscation, node.start, node.end, [spec_of(c) for c in node.children])


def nothing_differs(value: bytes, children) -> bool:
    return all(v == value[s:e] and nothing_differs(v, g) for (_t, v, _o, s, e, g) in children)
