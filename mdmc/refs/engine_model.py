"""Reference model of the scan engine: the interval-nesting procedure of property C06, written from the statement.

Works in *absolute* coordinates of the searched text with an explicit list of open contexts (the implementation
works with one running relative offset).  A registry here is a list of functions value -> list of hit specs
    (type, value, obfuscation, start, end, [child specs])
"""
from __future__ import annotations


class R:
    __slots__ = ("type", "value", "obf", "start", "end", "children", "src")

    def __init__(self, t, v, o, a, b, ch=None, src=None):
        self.type, self.value, self.obf, self.start, self.end = t, v, o, a, b
        self.children = ch or []
        self.src = src  # (search index, registry index, position) of the hit this node came from; None if supplied

    def tup(self):
        return (self.type, self.value, self.obf, self.start, self.end, tuple(c.tup() for c in self.children))


def mk(spec):
    t, v, o, a, b, kids = spec
    return R(t, v, o, a, b, [mk(k) for k in kids])


class Trace:
    """What the model did: searched values with their level, machine states, transitions."""

    __slots__ = ("searches", "states", "transitions", "dropped")

    def __init__(self):
        self.searches = []  # (level, value)
        self.states = []  # canonical machine states, one per processed hit
        self.transitions = 0
        self.dropped = []  # (reason, spec)


def ref_scan(node: R, depth: int, registry, trace: Trace | None = None, level: int = 0) -> R:
    if depth <= 0:
        return node
    if node.children:  # decoder-supplied sub-structure: descend, do not search
        for c in node.children:
            ref_scan(c, depth - 1, registry, trace, level + 1)
        return node
    if trace is not None:
        trace.searches.append((level, node.value))
    hits = []
    sidx = len(trace.searches) - 1 if trace is not None else 0
    for ri, search in enumerate(registry):
        for k, h in enumerate(search(node.value)):
            if h[1]:  # empty values are not results
                hits.append((h[3], -h[4], ri, k, h))
    hits.sort(key=lambda x: (x[0], x[1]))  # stable: start asc, end desc, then registry order, then decoder order
    decoded_end = 0
    open_ctx = []  # (abs_start, abs_end, node) innermost last
    for _, _, ri, k, h in hits:
        t, v, o, a, b, kids = h
        if trace is not None:
            trace.transitions += 1
        if b <= decoded_end:
            if trace is not None:
                trace.dropped.append(("in-decoded", h))
            continue
        while open_ctx and b > open_ctx[-1][1]:
            open_ctx.pop()
        if open_ctx:
            pa, _, parent = open_ctx[-1]
        else:
            pa, parent = 0, node
        rs, re_ = a - pa, b - pa
        if rs == 0 and v == parent.value and t == parent.type:
            if trace is not None:
                trace.dropped.append(("restates-parent", h))
            continue
        n = R(t, v, o, rs, re_, [mk(c) for c in kids], src=(sidx, ri, k))
        parent.children.append(n)
        if v.lower() != parent.value[rs:re_].lower() or n.children:
            decoded_end = b
            ref_scan(n, depth - 1, registry, trace, level + 1)
        else:
            open_ctx.append((a, b, n))
        if trace is not None:
            trace.states.append((tuple((x[0], x[1]) for x in open_ctx), decoded_end, len(node.value)))
    return node
