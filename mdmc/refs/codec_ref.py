"""Reference decoders for C13 / C14 written from the statements (no binascii, no codecs for the deciding step)."""
from __future__ import annotations

B64 = b"ABCDEFGHIJKLMNOPQRSTUVWXYZabcdefghijklmnopqrstuvwxyz0123456789+/"
B64MAP = {c: i for i, c in enumerate(B64)}
HEXMAP = {c: int(chr(c), 16) for c in b"0123456789abcdefABCDEF"}


def b64_decode(text: bytes):
    """RFC 4648 decoding of the base64 characters of `text` (padding optional, trailing bits ignored).
    Returns None when the number of data characters is 1 mod 4 (not decodable)."""
    chars = [c for c in text if c in B64MAP]
    if len(chars) % 4 == 1:
        return None
    out = bytearray()
    acc = bits = 0
    for c in chars:
        acc = (acc << 6) | B64MAP[c]
        bits += 6
        if bits >= 8:
            bits -= 8
            out.append((acc >> bits) & 0xFF)
            acc &= (1 << bits) - 1
    return bytes(out)


def strip_breaks(text: bytes) -> bytes:
    """Remove line breaks, their HTML escapes (&#..; / &#x..;) and the '<\\0  \\0' artefact from a bare base64 blob."""
    out = bytearray()
    i = 0
    n = len(text)
    while i < n:
        if text[i : i + 2] == b"&#":
            j = text.find(b";", i)
            if j > 0 and j - i <= 7:
                i = j + 1
                continue
        if text[i : i + 5] == b"<\x00  \x00":
            i += 5
            continue
        if text[i] in (0x0A, 0x0D):
            i += 1
            continue
        out.append(text[i])
        i += 1
    return bytes(out)


def between_quotes(text: bytes):
    qs = [i for i, c in enumerate(text) if c in b"'\""]
    if len(qs) < 2:
        return None
    return text[qs[0] + 1 : qs[-1]]


def hex_decode(text: bytes):
    digits = [c for c in text if c in HEXMAP]
    if len(digits) % 2:
        return None
    return bytes(HEXMAP[digits[i]] * 16 + HEXMAP[digits[i + 1]] for i in range(0, len(digits), 2))


def b64_accepts(b64: bytes) -> bool:
    """The documented acceptance rules for bare base64 (C13)."""
    body = b64.rstrip(b"=")
    if len(b64) % 4 or len(b64) < 22:
        return False
    if len(set(b64)) <= 6:
        return False
    if all(c in HEXMAP for c in b64):
        return False
    if all(65 <= c <= 90 or 97 <= c <= 122 for c in b64):
        return False
    if b64.count(b"/") / len(b64) > 3 / 32:
        return False
    return bool(body)


def xor_period(parent: bytes, child: bytes, maxlen: int = 65):
    """Smallest period p <= maxlen such that child = parent XOR (key of length p repeated); None if none."""
    if len(parent) != len(child):
        return None
    ks = bytes(a ^ b for a, b in zip(parent, child))
    for p in range(1, min(maxlen, len(ks)) + 1):
        if all(ks[i] == ks[i % p] for i in range(len(ks))):
            return p
    return None


# ---- C14 ------------------------------------------------------------------------------------------------------


def xml_ref_at(data: bytes, i: int):
    """(length, byte value) of a valid numeric character reference at i: &#<decimal 0..255, at most 3 digits>; or &#x<2 hex>;"""
    if data[i : i + 2] != b"&#":
        return None
    j = i + 2
    if data[j : j + 1] in (b"x", b"X"):
        h = data[j + 1 : j + 3]
        if len(h) == 2 and h[0] in HEXMAP and h[1] in HEXMAP and data[j + 3 : j + 4] == b";":
            return j + 4 - i, HEXMAP[h[0]] * 16 + HEXMAP[h[1]]
        return None
    k = j
    while k < len(data) and k - j < 3 and 48 <= data[k] <= 57:
        k += 1
    if k == j or data[k : k + 1] != b";":
        return None
    v = int(data[j:k])
    if v > 255:
        return None
    return k + 1 - i, v


def xml_runs(data: bytes, minrun: int = 5):
    """[(start, end, bytes)] for every maximal run of >= minrun adjacent valid references."""
    out = []
    i = 0
    n = len(data)
    while i < n:
        r = xml_ref_at(data, i)
        if r is None:
            i += 1
            continue
        start = i
        vals = []
        while r is not None:
            vals.append(r[1])
            i += r[0]
            r = xml_ref_at(data, i)
        if len(vals) >= minrun:
            out.append((start, i, bytes(vals)))
    return out


def utf8_of_codepoint(n: int):
    """UTF-8 encoding of code point n, None when not encodable (surrogates, beyond U+10FFFF)."""
    if n < 0 or n > 0x10FFFF or 0xD800 <= n <= 0xDFFF:
        return None
    if n < 0x80:
        return bytes([n])
    if n < 0x800:
        return bytes([0xC0 | n >> 6, 0x80 | n & 0x3F])
    if n < 0x10000:
        return bytes([0xE0 | n >> 12, 0x80 | n >> 6 & 0x3F, 0x80 | n & 0x3F])
    return bytes([0xF0 | n >> 18, 0x80 | n >> 12 & 0x3F, 0x80 | n >> 6 & 0x3F, 0x80 | n & 0x3F])


def utf16_char_ok(c: int) -> bool:
    """Latin-1 characters that count as text: everything except C0 controls other than TAB..CR, DEL and C1 controls."""
    return not (c <= 0x08 or 0x0E <= c <= 0x1F or 0x7F <= c <= 0x9F)


def utf16_runs(data: bytes, minrun: int = 7):
    """[(start, end, utf-8 text)] for leftmost maximal runs of >= minrun (char, 0x00) pairs (no separator handling)."""
    out = []
    i = 0
    n = len(data)
    while i + 1 < n:
        j = i
        chars = []
        while j + 1 < n and data[j + 1] == 0 and utf16_char_ok(data[j]):
            chars.append(data[j])
            j += 2
        if len(chars) >= minrun:
            out.append((i, j, b"".join(utf8_of_codepoint(c) for c in chars)))
            i = j
        else:
            i += 1
    return out


def stated_xor_key(text: bytes):
    """The single-byte key a script states: the number (1-3 digits) after the FIRST '-xor' / '-bxor' operator (any letter case, optional
    white space between operator and number).  None if the text states none."""
    low = bytes(text).lower()
    i = 0
    while True:
        j = low.find(b"xor", i)
        if j < 0:
            return None
        k = j - 1
        if k >= 0 and low[k : k + 1] == b"b":
            k -= 1
        if k >= 0 and low[k : k + 1] == b"-":
            p = j + 3
            while p < len(low) and low[p : p + 1] in b" \t\r\n\x0b\x0c":
                p += 1
            q = p
            while q < len(low) and q - p < 3 and low[q : q + 1].isdigit():
                q += 1
            if q > p:
                return int(low[p:q])
        i = j + 3
