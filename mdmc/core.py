"""Shared infrastructure: binding to /repo, recorder, watchdog, worker pool, evidence, known findings.

Nothing in here knows about a particular property.  A property module (mdmc/props/cXX.py) provides

    ID, TITLE
    plan(tier, seed)        -> list of picklable work units (the *whole* bounded space, partitioned)
    run_unit(unit, rec)     -> explores one unit exhaustively, reporting into a Rec
    replay(witness, rec)    -> re-runs exactly one case (no explorer) with the same oracles
    describe(tier)          -> dict(rule=..., bounds=..., assumptions=[...], technique=...)
"""
from __future__ import annotations

import array
import collections
import hashlib
import importlib
import json
import linecache
import multiprocessing as mp
import os
import random
import signal
import subprocess
import sys
import time
import traceback

VERIF = os.path.dirname(os.path.dirname(os.path.abspath(__file__)))
# VERIF_REPO is a development aid (run the same checks against a scratch worktree); registered commands never set it.
REPO = os.environ.get("VERIF_REPO") or "/repo"
REPO_SRC = REPO + "/src"
MASK = 0xFFFFFFFFFFFFFFFF
NPROC = int(os.environ.get("VERIF_JOBS", "0")) or min(16, os.cpu_count() or 1)
UNIT_STALL_S = 1500


# Boundary ladder for every unbounded quantity (run lengths, counts, depths, distances): powers of two +-1 and round numbers.
LADDER = sorted({0, 1, 2, 3, 4, 5, 7, 8, 9, 15, 16, 17, 31, 32, 33, 63, 64, 65, 100, 127, 128, 129, 255, 256, 257, 500, 501, 511, 512, 513, 1000, 1023, 1024, 1025,
                 2047, 2048, 2049, 4095, 4096, 4097, 4300, 4301, 5000, 8191, 8192, 8193, 10000, 16383, 16384, 16385, 32767, 32768, 32769, 65535, 65536, 65537, 70000})


def ladder(lo=0, hi=70000):
    return [n for n in LADDER if lo <= n <= hi]


class HarnessError(Exception):
    """The machinery (not the code under test) misbehaved.  Never reported as a VIOLATION."""


class AbortUnit(BaseException):
    """Too many hangs in one worker: stop the unit (its violations are already recorded)."""


class Hang(BaseException):
    """Raised by the watchdog inside an evaluation that made no progress (BaseException: survives `except Exception`)."""


def bind():
    """Assert that `multidecoder` is the working tree under /repo/src (never /repo/build/lib or site-packages)."""
    import multidecoder

    f = os.path.realpath(multidecoder.__file__)
    if not f.startswith(REPO_SRC + "/"):
        raise HarnessError(f"multidecoder imported from {f}, expected {REPO_SRC}")
    return f


def h64(obj) -> int:
    """64-bit hash; PYTHONHASHSEED is pinned by bin/check, workers are forked, so it is consistent across the run."""
    try:
        return hash(obj) & MASK
    except TypeError:  # e.g. a bytearray value reported by a decoder
        return hash(repr(obj)) & MASK


def jsonable(x):
    if isinstance(x, (bytes, bytearray)):
        return {"$b": bytes(x).decode("latin-1")}
    if isinstance(x, dict):
        return {str(k): jsonable(v) for k, v in x.items()}
    if isinstance(x, (list, tuple)):
        return [jsonable(v) for v in x]
    if isinstance(x, (set, frozenset)):
        return sorted((jsonable(v) for v in x), key=repr)
    if isinstance(x, (str, int, float, bool)) or x is None:
        return x
    return repr(x)


def unjson(x):
    if isinstance(x, dict):
        if set(x) == {"$b"}:
            return x["$b"].encode("latin-1")
        return {k: unjson(v) for k, v in x.items()}
    if isinstance(x, list):
        return [unjson(v) for v in x]
    return x


def short(x, n=160):
    r = repr(x)
    return r if len(r) <= n else r[: n - 3] + "..."


# --------------------------------------------------------------------------------------------------
# crash signatures


def _md_frames(tb):
    out = []
    for fs in traceback.extract_tb(tb):
        fn = fs.filename
        if "/multidecoder/" in fn and "/mdmc/" not in fn:
            out.append(fs)
    return out


def crash_sig(exc: BaseException) -> tuple[str, str]:
    """(signature, human detail) of an exception: type | innermost multidecoder function | raising source line."""
    frames = _md_frames(exc.__traceback__)
    if frames:
        fs = frames[-1]
        line = (fs.line or linecache.getline(fs.filename, fs.lineno)).strip()
        where = f"{os.path.basename(fs.filename)}:{fs.name}"
        if isinstance(exc, Hang):
            # a hang is interrupted at an arbitrary line of a loop: name the outermost non-recursive function instead
            names = [f"{os.path.basename(f.filename)}:{f.name}" for f in frames]
            where = names[-1]
            sig = f"hang|{where}"
        elif isinstance(exc, RecursionError):
            sig = f"RecursionError|{where}"
        else:
            sig = f"{type(exc).__name__}|{where}|{line}"
        detail = f"{type(exc).__name__}: {short(str(exc), 120)} at {os.path.basename(fs.filename)}:{fs.lineno} in {fs.name}: {line}"
    else:
        tbs = traceback.extract_tb(exc.__traceback__)
        last = tbs[-1] if tbs else None
        where = f"{os.path.basename(last.filename)}:{last.name}" if last else "?"
        sig = f"{type(exc).__name__}|outside-multidecoder|{where}"
        detail = f"{type(exc).__name__}: {short(str(exc), 120)} (raised outside multidecoder frames, at {where})"
    return sig, detail


# --------------------------------------------------------------------------------------------------
# watchdog: one repeating 1-second timer per worker; an evaluation that is still the current one after
# `limit` consecutive ticks is interrupted with Hang.  No per-evaluation syscalls.


class _Watch:
    def __init__(self):
        self.serial = 0
        self.last = -1
        self.stale = 0
        self.cpu0 = 0.0
        self.limit = 5
        self.armed = False
        self.installed = False
        self.hangs = 0

    def install(self):
        if self.installed:
            return
        signal.signal(signal.SIGALRM, self._tick)
        signal.setitimer(signal.ITIMER_REAL, 1.0, 1.0)
        self.installed = True

    def _tick(self, signum, frame):
        if not self.armed:
            self.last = -1
            self.stale = 0
            self.cpu0 = time.process_time()
            return
        # "no progress" is measured in CPU seconds of this process, so that a loaded machine (other checks, a thorough run next door) cannot
        # turn a slow evaluation into a hang; a wall-clock bound 20x as long still catches an evaluation that sleeps or blocks
        now = time.process_time()
        if self.serial == self.last:
            self.stale += 1
            if now - self.cpu0 >= self.limit or self.stale >= 20 * self.limit:
                self.stale = 0
                self.last = -1
                self.armed = False
                raise Hang(f"no progress for {self.limit}s")
        else:
            self.last = self.serial
            self.stale = 0
            self.cpu0 = now


WATCH = _Watch()


class Rec:
    """Per-unit recorder: named counters, named distinct-sets (64-bit hashes), violations keyed by signature."""

    MAX_SAMPLES = 3

    def __init__(self, prop: str):
        self.prop = prop
        self.n = collections.Counter()
        self.h: dict[str, set] = collections.defaultdict(set)
        self.viol: dict[str, dict] = {}
        self.samples: list = []
        self.notes = collections.Counter()

    def count(self, name, k=1):
        self.n[name] += k

    def mark(self, name, obj, unique=False):
        """Count a distinct case.  unique=True: the caller guarantees no other unit (and no earlier call) reports the
        same case, so it is counted without shipping a hash to the parent."""
        if unique:
            self.n["#" + name] += 1
        else:
            self.h[name].add(h64(obj))

    def sample(self, obj):
        if len(self.samples) < self.MAX_SAMPLES:
            self.samples.append(jsonable(obj))

    def note(self, name, k=1):
        self.notes[name] += k

    def violation(self, clause: str, sig: str, witness, detail: str, size: int = 0):
        """Record a violation.  `sig` decides identity (for collapsing and for known-findings matching)."""
        key = f"{clause}|{sig}"
        cur = self.viol.get(key)
        w = jsonable(witness)
        cand = {"clause": clause, "signature": key, "witness": w, "detail": detail, "size": size, "count": 1}
        if cur is None:
            self.viol[key] = cand
        else:
            cur["count"] += 1
            if (size, repr(w)) < (cur["size"], repr(cur["witness"])):
                cand["count"] = cur["count"]
                self.viol[key] = cand

    # guarded evaluation ---------------------------------------------------------------------------
    def guard(self, clause: str, witness, size, fn, *args, limit: int = 5):
        """Run fn(*args) under the watchdog.  Returns (ok, result).  Exceptions / hangs become violations."""
        if WATCH.hangs >= 12:
            self.n["cap_hit"] += 1
            raise AbortUnit()
        WATCH.serial += 1
        WATCH.limit = limit if WATCH.hangs < 3 else 2
        WATCH.armed = True
        try:
            res = fn(*args)
            WATCH.armed = False
            return True, res
        except Hang as e:
            WATCH.armed = False
            WATCH.hangs += 1
            sig, detail = crash_sig(e)
            self.violation(clause, sig, witness, "did not terminate: " + detail, size)
        except HarnessError:
            WATCH.armed = False
            raise
        except Exception as e:  # noqa: BLE001 - totality oracle: any exception type is a finding
            WATCH.armed = False
            sig, detail = crash_sig(e)
            self.violation(clause, sig, witness, detail, size)
        return False, None

    def pack(self):
        return {
            "n": dict(self.n),
            "h": {k: array.array("Q", v).tobytes() for k, v in self.h.items()},
            "viol": self.viol,
            "samples": self.samples,
            "notes": dict(self.notes),
        }


class Acc:
    """Parent-side accumulator over all units."""

    def __init__(self):
        self.n = collections.Counter()
        self.h: dict[str, set] = collections.defaultdict(set)
        self.viol: dict[str, dict] = {}
        self.samples: list = []
        self.notes = collections.Counter()
        self.units = 0

    def merge(self, packed, rng=None):
        self.units += 1
        self.n.update(packed["n"])
        self.notes.update(packed["notes"])
        for k, b in packed["h"].items():
            a = array.array("Q")
            a.frombytes(b)
            self.h[k].update(a)
        for key, v in packed["viol"].items():
            cur = self.viol.get(key)
            if cur is None:
                self.viol[key] = v
            else:
                total = cur["count"] + v["count"]
                if (v["size"], repr(v["witness"])) < (cur["size"], repr(cur["witness"])):
                    self.viol[key] = v
                self.viol[key]["count"] = total
        for s in packed["samples"]:
            if len(self.samples) < 6:
                self.samples.append(s)

    def distinct(self, name):
        return len(self.h.get(name, ())) + int(self.n.get("#" + name, 0))


# --------------------------------------------------------------------------------------------------
# pool


def _worker_init():
    WATCH.install()
    try:
        _clear_caches()
    except Exception:  # noqa: BLE001
        pass


def _clear_caches():
    """Clear any functools cache living in multidecoder.* (none exist today; a mutant may add one)."""
    for name, mod in list(sys.modules.items()):
        if name.startswith("multidecoder") and mod is not None:
            for v in list(vars(mod).values()):
                cc = getattr(v, "cache_clear", None)
                if callable(cc):
                    try:
                        cc()
                    except Exception:  # noqa: BLE001
                        pass


INTERP_FLAGS = ("-O", "-OO", "@debuglog", "@env")
# "-O"/"-OO": interpreter flags.  "@debuglog": the host application has switched DEBUG logging on for every logger.  "@env": the host
# runs from another working directory with LC_ALL=C, PYTHONUTF8=0, PYTHONIOENCODING unset and an unusual TZ.


HOSTCFG_TEXT = {"@debuglog": "host process with DEBUG logging enabled", "@env": "host process in cwd / with LC_ALL=C PYTHONUTF8=0"}


def interp_axis(units):
    """The given work units once more, each inside a child interpreter started with -O and with -OO (assert statements / docstrings stripped)."""
    return [("interp", flag, u) for flag in INTERP_FLAGS for u in units]


def child(mode: str, modname: str, arg, flag: str, timeout=1400):
    """Run a unit / a replay in a child interpreter started with `flag`; returns the child's packed record."""
    import base64
    import pickle
    import subprocess

    import tempfile

    last = None
    for attempt in range(2):  # a child that dies without leaving its record is started once more before the run is declared broken
        fd, out = tempfile.mkstemp(prefix="mdmc-child-", suffix=".pkl")
        os.close(fd)
        try:
            env = dict(os.environ, MDMC_HOSTCFG=flag)
            if flag == "@env":
                env.update(LC_ALL="C", LANG="C", PYTHONUTF8="0", TZ="Pacific/Kiritimati")
                env.pop("PYTHONIOENCODING", None)
            r = subprocess.run([sys.executable] + ([flag] if flag.startswith("-") else []) + ["-W", "ignore::DeprecationWarning", "-m", "mdmc.childunit", mode, modname,
                                base64.b64encode(pickle.dumps(arg)).decode(), out], capture_output=True, timeout=timeout, env=env,
                               cwd="/" if flag == "@env" else None)
            try:
                with open(out, "rb") as f:
                    return pickle.loads(f.read())
            except Exception as e:  # noqa: BLE001
                last = f"child interpreter {flag} produced no record (rc={r.returncode}, {e!r}): {r.stderr.decode('latin-1')[-600:]}"
        finally:
            for pth in (out, out + ".tmp"):
                try:
                    os.unlink(pth)
                except OSError:
                    pass
    raise HarnessError(last)


def merge_child(rec: "Rec", packed: dict, flag: str):
    """Fold a child's record into rec; violations keep their clause and get the interpreter flag in signature and witness."""
    if "harness_error" in packed:
        raise HarnessError(f"[python {flag}] " + packed["harness_error"])
    for k, v in packed["n"].items():
        rec.n[k] += v
    for k, v in packed["notes"].items():
        rec.notes[k] += v
    for k, b in packed["h"].items():
        a = array.array("Q")
        a.frombytes(b)
        rec.h[k].update(x ^ h64(flag) for x in a)
    for key, v in packed["viol"].items():
        # same signature as in the parent interpreter (a known finding stays known); the flag travels in the witness. size+1: if the
        # parent interpreter reports the same signature its witness is preferred
        v = dict(v, witness={"$interp": flag, "w": v["witness"]}, detail=f"[{HOSTCFG_TEXT.get(flag, 'interpreter started with ' + flag)}] " + v["detail"], size=v["size"] + 1)
        cur = rec.viol.get(key)
        if cur is None or (v["size"], repr(v["witness"])) < (cur["size"], repr(cur["witness"])):
            if cur is not None:
                v["count"] += cur["count"]
            rec.viol[key] = v
        else:
            cur["count"] += v["count"]
    for smp in packed["samples"][:1]:
        rec.sample({"interpreter": flag, "sample": smp})


def _call(arg):
    modname, unit = arg
    mod = importlib.import_module(modname)
    rec = Rec(mod.ID)
    WATCH.install()
    WATCH.hangs = 0
    if unit and unit[0] == "interp":
        # ("interp", flag, inner unit): the same unit, executed by a child interpreter with assert statements stripped
        try:
            WATCH.armed = False
            merge_child(rec, child("unit", modname, unit[2], unit[1]), unit[1])
        except HarnessError as e:
            return {"harness_error": f"{e}", "unit": repr(unit)[:300]}
        return rec.pack()
    try:
        mod.run_unit(unit, rec)
    except AbortUnit:
        rec.note("unit aborted after 12 hangs (violations recorded; remaining cases of the unit skipped)")
    except HarnessError as e:
        return {"harness_error": f"{e}", "unit": repr(unit)[:300]}
    except Hang as e:
        # a hang outside a guarded evaluation: attribute to the unit
        sig, detail = crash_sig(e)
        rec.violation("terminates", sig, {"unit": jsonable(unit)}, "unit did not terminate: " + detail, 10**6)
    except Exception:  # noqa: BLE001
        return {"harness_error": traceback.format_exc(), "unit": repr(unit)[:300]}
    return rec.pack()


def run_units(modname: str, units: list, nproc: int = NPROC, progress=None) -> Acc:
    acc = Acc()
    if not units:
        return acc
    if nproc <= 1 or len(units) == 1:
        WATCH.install()
        for u in units:
            p = _call((modname, u))
            if "harness_error" in p:
                raise HarnessError(p["harness_error"] + " in unit " + p["unit"])
            acc.merge(p)
        return acc
    ctx = mp.get_context("fork")
    # FRESH_PROCESS_PER_UNIT: every unit runs in a process forked from the (scan-free) parent, so that module-level state left behind
    # by one unit cannot mask or fake a finding in another (used by the history / position-independence checks)
    per_unit = bool(getattr(importlib.import_module(modname), "FRESH_PROCESS_PER_UNIT", False))
    with ctx.Pool(min(nproc, len(units)), initializer=_worker_init, maxtasksperchild=1 if per_unit else None) as pool:
        it = pool.imap_unordered(_call, [(modname, u) for u in units], chunksize=1)
        while True:
            try:
                p = it.next(timeout=UNIT_STALL_S)
            except StopIteration:
                break
            except mp.TimeoutError:
                pool.terminate()
                raise HarnessError(f"no work unit finished within {UNIT_STALL_S}s (a worker is stuck outside the Python-level watchdog)")
            if "harness_error" in p:
                pool.terminate()
                raise HarnessError(p["harness_error"] + " in unit " + p["unit"])
            acc.merge(p)
            if progress:
                progress(acc)
    return acc


# --------------------------------------------------------------------------------------------------
# known findings


def load_known():
    path = os.path.join(VERIF, "known_findings.json")
    if not os.path.exists(path):
        return []
    with open(path) as f:
        return json.load(f)["entries"]


def sig_hash(sig: str) -> str:
    return hashlib.sha1(sig.encode()).hexdigest()[:10]


def validate_evidence(path: str) -> str | None:
    """Validate against the given schema with python3-vt (jsonschema lives there).  Returns an error text or None."""
    schema = "/root/.vp/EVIDENCE.schema.json"
    if not os.path.exists(schema):
        schema = os.path.join(VERIF, "schemas", "EVIDENCE.schema.json")
    code = (
        "import json,sys,jsonschema;"
        "jsonschema.validate(json.load(open(sys.argv[1])), json.load(open(sys.argv[2])))"
    )
    try:
        r = subprocess.run(["python3-vt", "-c", code, path, schema], capture_output=True, text=True, timeout=60)
    except (OSError, subprocess.TimeoutExpired) as e:
        return None if isinstance(e, OSError) else "validator timed out"
    if r.returncode != 0:
        return (r.stderr or r.stdout)[-600:]
    return None


def shuffled(units: list, seed: int) -> list:
    """The seed only rotates the order in which units are explored (and therefore which samples are shown)."""
    units = list(units)
    random.Random(seed).shuffle(units)
    return units
