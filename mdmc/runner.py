"""bin/check <ID> [--tier quick|thorough] [--replay FILE]  ->  python -m mdmc.runner ..."""
from __future__ import annotations

import argparse
import importlib
import json
import os
import subprocess
import sys
import time

from mdmc import core


def _replay(mod, path: str) -> int:
    with open(path) as f:
        doc = json.load(f)
    if doc.get("property") != mod.ID:
        print(f"replay file is for {doc.get('property')}, not {mod.ID}", file=sys.stderr)
        return 2
    rec = core.Rec(mod.ID)
    core.WATCH.install()
    w = core.unjson(doc["witness"])
    try:
        if isinstance(w, dict) and "$interp" in w:
            core.merge_child(rec, core.child("replay", mod.__name__, w["w"], w["$interp"]), w["$interp"])
        else:
            mod.replay(w, rec)
    except core.AbortUnit:
        print("replay stopped after 12 evaluations that did not terminate (violations recorded so far are reported)")
    except core.Hang as e:
        sig, detail = core.crash_sig(e)
        rec.violation("terminates", sig, w, "replay did not terminate: " + detail, 10**6)
    want = doc.get("signature")
    rc = 0
    for key, v in sorted(rec.viol.items()):
        mark = " (the recorded signature)" if key == want else ""
        print(f"REPLAY-VIOLATION signature={key}{mark}\n  detail: {v['detail']}")
        rc = 1
    if rc:
        print(f"VIOLATION property={mod.ID} replay={path}")
    else:
        print(f"replay of {path}: property {mod.ID} holds on this case")
    return rc


def _confirm(prop: str, path: str, sig: str) -> bool:
    """A violation is only reported if the witness fails identically twice, each in a fresh process."""
    outs = []
    for _ in range(2):
        r = subprocess.run(
            [os.path.join(core.VERIF, "bin", "check"), prop, "--replay", path],
            capture_output=True,
            text=True,
            timeout=600,
        )
        outs.append((r.returncode, f"signature={sig}" in r.stdout))
    return all(rc == 1 and seen for rc, seen in outs)


def main(argv=None) -> int:
    ap = argparse.ArgumentParser()
    ap.add_argument("prop")
    ap.add_argument("--tier", default=os.environ.get("VERIF_TIER") or "quick", choices=["quick", "thorough"])
    ap.add_argument("--replay")
    ap.add_argument("--jobs", type=int, default=core.NPROC)
    ap.add_argument("--no-confirm", action="store_true")
    args = ap.parse_args(argv)
    prop = args.prop.upper()
    seed = int(os.environ.get("VERIF_SEED", "0") or 0)
    try:
        src = core.bind()
        mod = importlib.import_module(f"mdmc.props.{prop.lower()}")
    except core.HarnessError as e:
        print(f"HARNESS-ERROR {e}", file=sys.stderr)
        return 2
    if args.replay:
        return _replay(mod, args.replay)

    t0 = time.time()
    desc = mod.describe(args.tier)
    units = core.shuffled(mod.plan(args.tier, seed), seed)
    print(f"[{prop}] tier={args.tier} seed={seed} units={len(units)} jobs={args.jobs} src={src}", flush=True)
    last = [t0]

    def progress(acc):
        if time.time() - last[0] > 30:
            last[0] = time.time()
            print(f"[{prop}] ... {acc.units}/{len(units)} units, {acc.n.get('evaluations', 0)} evaluations, "
                  f"{len(acc.viol)} violation signatures, {time.time() - t0:.0f}s", flush=True)

    try:
        acc = core.run_units(mod.__name__, units, args.jobs, progress)
        if hasattr(mod, "finalize"):
            mod.finalize(acc, args.tier)
    except core.HarnessError as e:
        print(f"HARNESS-ERROR {e}", file=sys.stderr)
        return 2

    # ---- classify violations -----------------------------------------------------------------
    known = [e for e in core.load_known() if e.get("property") == prop and e.get("status") == "known"]
    known_by_sig = {e["signature"]: e for e in known}
    new, seen_known = [], {}
    for key, v in sorted(acc.viol.items()):
        if key in known_by_sig:
            seen_known[key] = v
        else:
            new.append(v)
    rc = 0
    os.makedirs(os.path.join(core.VERIF, "replays"), exist_ok=True)
    for key, v in seen_known.items():
        e = known_by_sig[key]
        print(f"KNOWN-FINDING: property={prop} {e['what']}  [{v['count']} cases this run, signature {key}]")
    for e in known:
        if e["signature"] not in seen_known:
            print(f"note: known finding not observed in this run (stale or outside this tier's bound): {e['signature']}")
    unconfirmed = []
    for v in new:
        path = os.path.join(core.VERIF, "replays", f"{prop}-{core.sig_hash(v['signature'])}.json")
        with open(path, "w") as f:
            json.dump({"property": prop, "signature": v["signature"], "clause": v["clause"], "detail": v["detail"],
                       "cases_with_this_signature": v["count"], "seed": seed, "tier": args.tier,
                       "witness": v["witness"]}, f, indent=1)
        if not args.no_confirm and not _confirm(prop, path, v["signature"]):
            # e.g. a witness that only fails after the other cases of its work unit ran in the same process: not reported on its own,
            # the remaining signatures are still confirmed and reported
            print(f"note: violation {v['signature']} did not reproduce identically in two fresh processes (replay {path}); not reported",
                  file=sys.stderr)
            unconfirmed.append(v["signature"])
            continue
        print(f"  clause {v['clause']}: {v['detail']}\n  witness: {core.short(v['witness'], 300)}  ({v['count']} cases)")
        print(f"VIOLATION property={prop} replay={path}")
        rc = 1

    # ---- evidence ------------------------------------------------------------------------------
    wall = time.time() - t0
    cov = {
        "states": acc.distinct("states") or int(acc.n.get("states", 0)),
        "transitions": int(acc.n.get("transitions", 0)),
        "traces_validated_against_impl": int(acc.n.get("traces", 0)),
        "evaluations": int(acc.n.get("evaluations", 0)),
        "distinct_nontrivial": acc.distinct("nontrivial"),
        "distinct_outcomes": acc.distinct("outcomes"),
        "rule": desc["rule"],
        "bounds": desc.get("bounds", {}),
        "exhaustive": bool(desc.get("exhaustive", True)) and not acc.n.get("cap_hit", 0),
        "units": acc.units,
        "samples": acc.samples or [{"note": "no sample recorded"}],
        "counters": {k: int(v) for k, v in sorted(acc.n.items())},
        "distinct": {k: len(v) for k, v in sorted(acc.h.items())},
        "notes": {k: int(v) for k, v in sorted(acc.notes.items())},
        "known_findings_observed": sorted(seen_known),
        "new_violation_signatures": [v["signature"] for v in new if v["signature"] not in unconfirmed],
        "signatures_not_reproduced_in_fresh_processes": list(unconfirmed),
        "source_bound_to": src,
        "pythonhashseed": os.environ.get("PYTHONHASHSEED"),
    }
    ev = {
        "property_id": prop,
        "tier": args.tier,
        "seed": seed,
        "level": "model_checking",
        "coverage": cov,
        "assumptions": desc.get("assumptions", []),
        "wall_s": round(wall, 2),
        "violations": len(new) - len(unconfirmed),
    }
    # a development run against a scratch worktree (VERIF_REPO, never set by the registered commands) must not overwrite the evidence of /repo
    evdir = os.path.join(core.VERIF, "evidence") if not os.environ.get("VERIF_REPO") else os.path.join("/tmp", "mdmc-scratch-evidence")
    os.makedirs(evdir, exist_ok=True)
    evpath = os.path.join(evdir, f"{prop}.json")
    with open(evpath, "w") as f:
        json.dump(ev, f, indent=1, sort_keys=True)
    err = core.validate_evidence(evpath)
    if err:
        print(f"HARNESS-ERROR evidence does not validate: {err}", file=sys.stderr)
        return 2
    print(f"[{prop}] states={cov['states']} transitions={cov['transitions']} traces_validated={cov['traces_validated_against_impl']} "
          f"evaluations={cov['evaluations']} nontrivial={cov['distinct_nontrivial']} outcomes={cov['distinct_outcomes']} "
          f"violations={len(new) - len(unconfirmed)} known={len(seen_known)} wall={wall:.1f}s exhaustive={cov['exhaustive']}")
    if rc == 0 and unconfirmed:
        print(f"HARNESS-ERROR {len(unconfirmed)} violation signature(s) were seen during the run but none reproduced in fresh processes; "
              "treating as harness nondeterminism, not as a finding", file=sys.stderr)
        return 2
    return rc


if __name__ == "__main__":
    sys.exit(main())
