"""Statement-level monitors for the engine properties C03 (well-formed tree), C04 (context preservation) and
C05 (laminar siblings / suppression).  Each works on (tree, log) of an instrumented scan -- synthetic registry
(hitx) or shipped registry (streams) alike -- and is written from the property statement, not from the model."""
from __future__ import annotations

from mdmc import core, trees


def producer_name(log, registry_names, n):
    """Name of the decoder that produced node n (or supplied it inside one of its hits)."""
    h = log.hits.get(id(n))
    if h is not None:
        return registry_names[h[1]] if registry_names else f"decoder#{h[1]}"
    top = log.supplied.get(id(n))
    if top is not None:
        hh = log.hits.get(top)
        if hh is not None:
            return "supplied-by:" + (registry_names[hh[1]] if registry_names else f"decoder#{hh[1]}")
    return "?"


# ---- C03 ---------------------------------------------------------------------------------------------


def c03_cause(n, log):
    """Named cause predicates for out-of-bounds spans (fine enough to keep different defects apart)."""
    p = n.parent
    plen = len(p.value) if p is not None else -1
    h = log.hits.get(id(n)) if log is not None else None
    if n.type in ("shell.powershell", "shell.cmd") and h is not None:
        _, _, _, text, a, b = h
        if a > 0 and b == len(text) - a and b < a:
            return "ps-no-context-end-is-len-minus-start"
    if n.type == "shell.powershell" and log is not None and id(n) in log.supplied and p is not None:
        if n.start == 0 and n.end == len(n.value) and n.end > plen and p.type == "shell.cmd":
            return "ps-child-span-is-own-value-length"
    if n.start < 0:
        return "start<0"
    if n.end < n.start:
        return "end<start"
    if n.end > plen:
        return "end>len(parent.value)"
    return "?"


def c03(rec, tree, data, log, witness, size, names=None):
    """C03 on one scan result.  Returns the list of nodes (pre-order, identity based)."""
    if tree.type != "" or tree.obfuscation != "" or (tree.start, tree.end) != (0, len(data)) or tree.value != data:
        rec.violation("C03.root", "root-fields", witness,
                      f"root is not ('', input, '', 0, len(input)): type={tree.type!r} obf={tree.obfuscation!r} span=({tree.start},{tree.end}) len={len(data)}", size)
    if tree.parent is not None:
        rec.violation("C03.root", "root-has-parent", witness, "root.parent is not None", size)
    try:
        nodes = trees.walk(tree)
    except RuntimeError:
        rec.violation("C03.tree", "cycle", witness, "identity walk did not terminate (cycle or runaway tree)", size)
        return []
    ids = {}
    for n in nodes:
        ids[id(n)] = ids.get(id(n), 0) + 1
    dup = [n for n in nodes if ids[id(n)] > 1]
    if dup:
        rec.violation("C03.tree", f"node-appears-twice|{dup[0].type}", witness,
                      f"node {dup[0].type!r} {core.short(dup[0].value, 40)} appears {ids[id(dup[0])]} times in the tree", size)
    inside = set(ids) | {id(tree)}
    for holder in [tree] + nodes:
        for c in holder.children:
            if c.parent is not holder:
                where = "outside the tree" if (c.parent is None or id(c.parent) not in inside) else "another node of the tree"
                rec.violation("C03.parent", f"parent-mismatch|{c.type}|{producer_name(log, names, c) if log else '?'}", witness,
                              f"node {c.type!r} {core.short(c.value, 40)} is listed by {holder.type!r} but its parent pointer names {where}", size)
    try:
        it = list(tree)
    except RecursionError:
        it = None
    if it is not None and (len(it) != len(nodes) or any(a is not b for a, b in zip(it, nodes))):
        rec.violation("C03.iteration", "iteration-order", witness,
                      f"iterating the root yields {len(it)} nodes, identity pre-order walk {len(nodes)} (or a different order)", size)
    for n in nodes:
        p = n.parent
        if p is None:
            continue
        if not (0 <= n.start <= n.end <= len(p.value)):
            cause = c03_cause(n, log)
            prod = producer_name(log, names, n) if log else "?"
            rec.violation("C03.span-in-bounds", f"{n.type}|{prod}|{cause}", witness,
                          f"node {n.type!r} {core.short(n.value, 40)} has span ({n.start},{n.end}) in a parent value of length {len(p.value)} "
                          f"(parent {p.type!r}); produced by {prod}; cause {cause}", size)
    return nodes


# ---- C04 ---------------------------------------------------------------------------------------------


def c04(rec, tree, log, witness, size, nodes=None):
    """Every kept hit denotes exactly the bytes its decoder reported.  Returns number of hits checked / deep ones."""
    if nodes is None:
        nodes = trees.walk(tree)
    checked = deep = 0
    for n in nodes:
        h = log.hits.get(id(n))
        if h is None:
            continue  # decoder-supplied sub-structure: spans are the decoder's own business (C03/C12)
        sid, ri, k, text, a, b = h
        checked += 1
        total = n.start
        p = n.parent
        hops = 0
        while p is not None:
            hp = log.hits.get(id(p))
            if hp is None or hp[0] != sid:
                break  # p is the node that was searched (root, a decoded hit of an earlier search, or supplied)
            total += p.start
            p = p.parent
            hops += 1
        if hops and total != n.start:
            deep += 1
        if p is None or p.value != text:
            rec.violation("C04.same-text", f"reaimed|ctxdepth={min(hops, 3)}", witness,
                          f"hit {n.type!r} found in text {core.short(text, 40)} hangs (through {hops} contexts) under a node whose value is "
                          f"{core.short(p.value if p is not None else None, 40)}", size)
            continue
        if total != a:
            rec.violation("C04.start", f"moved|ctxdepth={min(hops, 3)}", witness,
                          f"hit {n.type!r} reported at [{a},{b}) but start offsets of its {hops} enclosing contexts add up to {total}", size)
        if n.end - n.start != b - a:
            rec.violation("C04.length", f"truncated|ctxdepth={min(hops, 3)}", witness,
                          f"hit {n.type!r} reported with length {b - a} but node spans {n.end - n.start}", size)
        elif n.parent is not None and 0 <= a <= b <= len(text) and n.original.lower() != text[a:b].lower():
            rec.violation("C04.bytes", f"reaimed-bytes|ctxdepth={min(hops, 3)}", witness,
                          f"hit {n.type!r}: original slice {core.short(n.original, 40)} is not the reported text {core.short(text[a:b], 40)}", size)
    return checked, deep


# ---- C05 ---------------------------------------------------------------------------------------------


def c05(rec, tree, log, witness, size, nodes=None):
    """Laminar child lists; nothing kept inside a decoded region.  Returns (#child lists checked, #containment pairs)."""
    if nodes is None:
        nodes = trees.walk(tree)
    lists = pairs = 0
    for holder in [tree] + nodes:
        ch = [c for c in holder.children if id(c) in log.hits]  # engine-attached (decoder-supplied lists are excluded)
        if len(ch) < 2:
            continue
        lists += 1
        for x, y in zip(ch, ch[1:]):
            if y.start < x.start or y.end <= x.end:
                depth = 0
                q = holder
                while q is not None and q.parent is not None:
                    depth += 1
                    q = q.parent
                kind = "same-span" if (x.start, x.end) == (y.start, y.end) else ("inside" if y.end <= x.end else "unordered")
                rec.violation("C05.laminar", f"{kind}|nesting={'top' if depth == 0 else 'inner'}", witness,
                              f"siblings under {holder.type!r}: ({x.start},{x.end}) {x.type!r} then ({y.start},{y.end}) {y.type!r} -- starts must be "
                              f"non-decreasing and ends strictly increasing", size)
                break
    # containment pairs among kept hits of one search
    by_search = {}
    for n in nodes:
        h = log.hits.get(id(n))
        if h is not None:
            by_search.setdefault(h[0], []).append((h[4], -h[5], h[1], h[2], n, h[3]))
    for sid, lst in by_search.items():
        if len(lst) < 2:
            continue
        lst.sort(key=lambda x: x[:4])
        for i, (a1, nb1, _, _, s, text) in enumerate(lst):
            b1 = -nb1
            decoded = (not (0 <= a1 <= b1 <= len(text))) or s.value.lower() != text[a1:b1].lower() or id(s) in log.has_kids
            for (a2, nb2, _, _, hnode, _) in lst[i + 1:]:
                b2 = -nb2
                if a2 >= b1:
                    break
                if not (a1 <= a2 and b2 <= b1):
                    continue
                pairs += 1
                if decoded:
                    rec.violation("C05.suppressed-in-decoded", f"kept-inside-decoded|{'shifted' if s.start != a1 else 'unshifted'}", witness,
                                  f"hit {hnode.type!r} [{a2},{b2}) lies inside the decoded hit {s.type!r} [{a1},{b1}) of the same search but was kept", size)
                else:
                    # the later hit must not be a sibling of the context it lies in, nor of any of that context's
                    # ancestors (it may legitimately hang under a later, overlapping context that is still open)
                    q = s.parent
                    while q is not None:
                        if hnode.parent is q:
                            rec.violation("C05.nested-in-context", "inside-context-but-attached-beside-it", witness,
                                          f"hit {hnode.type!r} [{a2},{b2}) lies inside the undecoded context {s.type!r} [{a1},{b1}) but is attached "
                                          f"beside or above it (to {q.type!r})", size)
                            break
                        q = q.parent
    return lists, pairs
