"""Minimal PE image generator for the structured PE families (fields x every truncation length)."""
from __future__ import annotations

import struct


def mkpe(nsec=1, ptr=0x200, size=0x200, total=0x400, optsize=0xE0, lfanew=0x40, ptr2=None, size2=None):
    dos = bytearray(b"MZ" + b"\0" * 62)
    if lfanew > 0x40:
        dos += b"\0" * (min(lfanew, 0x200) - 0x40)
    struct.pack_into("<I", dos, 0x3C, lfanew & 0xFFFFFFFF)
    coff = struct.pack("<HHIIIHH", 0x14C, nsec & 0xFFFF, 0, 0, 0, optsize & 0xFFFF, 0x102)
    opt = bytearray(min(optsize, 0x200))
    if len(opt) >= 2:
        struct.pack_into("<H", opt, 0, 0x10B)
    if len(opt) >= 0x60:
        struct.pack_into("<I", opt, 92, 16)  # NumberOfRvaAndSizes
    secs = b""
    for i in range(min(nsec, 3)):
        p, s = (ptr, size) if i == 0 or ptr2 is None else (ptr2, size2)
        secs += struct.pack("<8sIIIIIIHHI", b".text", s & 0xFFFFFFFF, 0x1000 * (i + 1), s & 0xFFFFFFFF, p & 0xFFFFFFFF, 0, 0, 0, 0, 0x60000020)
    hdr = bytes(dos) + b"PE\0\0" + coff + bytes(opt) + secs
    return hdr + b"\xcc" * max(0, total - len(hdr))


def valid_pe_variant(kind):
    """Structurally valid images whose LAST section-table entry is not the one that reaches furthest into the file:
    'bss' = two sections + a trailing uninitialised-data section without raw data; 'reversed' = raw data stored in the
    opposite order of the section table."""
    hdr_len = 0x200
    dos = bytearray(b"MZ" + b"\0" * 62)
    struct.pack_into("<I", dos, 0x3C, 0x40)
    if kind == "bss":
        layout = [(hdr_len, 0x200), (hdr_len + 0x200, 0x200), (0, 0)]
    else:
        layout = [(hdr_len + 0x400, 0x200), (hdr_len + 0x200, 0x200), (hdr_len, 0x200)]
    coff = struct.pack("<HHIIIHH", 0x14C, len(layout), 0, 0, 0, 0xE0, 0x102)
    opt = bytearray(0xE0)
    struct.pack_into("<H", opt, 0, 0x10B)
    struct.pack_into("<I", opt, 92, 16)
    secs = b""
    for i, (ptr, size) in enumerate(layout):
        secs += struct.pack("<8sIIIIIIHHI", b".s%d" % i, 0x200, 0x1000 * (i + 1), size, ptr, 0, 0, 0, 0, 0x60000020 if size else 0xC0000080)
    hdr = bytes(dos) + b"PE\0\0" + coff + bytes(opt) + secs
    end = max(p + s for p, s in layout)
    return hdr + b"\0" * (hdr_len - len(hdr)) + b"\xcc" * (end - hdr_len)


def valid_pe_big(lfanew=0x1000, nsec=2):
    """Valid image with a large DOS stub (e_lfanew far from 0x40) and/or many sections (section table beyond the first 4 KiB)."""
    dos = bytearray(b"MZ" + b"\0" * (lfanew - 2))
    struct.pack_into("<I", dos, 0x3C, lfanew)
    coff = struct.pack("<HHIIIHH", 0x14C, nsec, 0, 0, 0, 0xE0, 0x102)
    opt = bytearray(0xE0)
    struct.pack_into("<H", opt, 0, 0x10B)
    struct.pack_into("<I", opt, 92, 16)
    hdr_len = ((lfanew + 4 + 20 + 0xE0 + 40 * nsec) // 0x200 + 1) * 0x200
    secs = b""
    for i in range(nsec):
        secs += struct.pack("<8sIIIIIIHHI", b".s%d" % (i % 10), 0x200, 0x1000 * (i + 1), 0x200, hdr_len + 0x200 * i, 0, 0, 0, 0, 0x60000020)
    hdr = bytes(dos) + b"PE\0\0" + coff + bytes(opt) + secs
    return hdr + b"\0" * (hdr_len - len(hdr)) + b"\xcc" * (0x200 * nsec)


def valid_pe(nsec=1, payload=b"\xcc"):
    """A structurally valid image: sections laid out back to back after the headers, file ends with the last section."""
    hdr_len = 0x200
    total = hdr_len + 0x200 * nsec
    dos = bytearray(b"MZ" + b"\0" * 62)
    struct.pack_into("<I", dos, 0x3C, 0x40)
    coff = struct.pack("<HHIIIHH", 0x14C, nsec, 0, 0, 0, 0xE0, 0x102)
    opt = bytearray(0xE0)
    struct.pack_into("<H", opt, 0, 0x10B)
    struct.pack_into("<I", opt, 92, 16)
    secs = b""
    for i in range(nsec):
        secs += struct.pack("<8sIIIIIIHHI", b".sec%d" % i, 0x200, 0x1000 * (i + 1), 0x200, hdr_len + 0x200 * i, 0, 0, 0, 0, 0x60000020)
    hdr = bytes(dos) + b"PE\0\0" + coff + bytes(opt) + secs
    body = (payload * (0x200 * nsec // len(payload) + 1))[: 0x200 * nsec]
    return hdr + b"\0" * (hdr_len - len(hdr)) + body


def pe_holding(inner: bytes, at: int):
    """A structurally valid one-section image whose section raw data holds `inner` at offset `at` of the section (a dropper carrying
    a second image).  Returns (image, offset of inner in image)."""
    hdr_len = 0x200
    size = ((at + len(inner) + 0x40) // 0x200 + 1) * 0x200
    dos = bytearray(b"MZ" + b"\0" * 62)
    struct.pack_into("<I", dos, 0x3C, 0x40)
    coff = struct.pack("<HHIIIHH", 0x14C, 1, 0, 0, 0, 0xE0, 0x102)
    opt = bytearray(0xE0)
    struct.pack_into("<H", opt, 0, 0x10B)
    struct.pack_into("<I", opt, 92, 16)
    secs = struct.pack("<8sIIIIIIHHI", b".rsrc", size, 0x1000, size, hdr_len, 0, 0, 0, 0, 0x40000040)
    hdr = bytes(dos) + b"PE\0\0" + coff + bytes(opt) + secs
    body = bytearray(b"\xcc" * size)
    body[at:at + len(inner)] = inner
    return hdr + b"\0" * (hdr_len - len(hdr)) + bytes(body), hdr_len + at


def pe_at(lfanew: int, payload_len: int = 48, file_align: int = 0x10):
    """A one-section PE32 image whose NT headers start at `lfanew` - including values below 0x40, where they overlap the DOS header and the
    e_lfanew field (written last) doubles as some optional-header field ("tiny PE" layout)."""
    opt_size = 0xE0
    table = lfanew + 4 + 20 + opt_size
    raw = -(-(table + 40) // file_align) * file_align
    buf = bytearray(raw + payload_len)
    buf[0:2] = b"MZ"
    buf[lfanew:lfanew + 4] = b"PE\0\0"
    struct.pack_into("<HHIIIHH", buf, lfanew + 4, 0x14C, 1, 0, 0, 0, opt_size, 0x102)
    o = lfanew + 24
    struct.pack_into("<H", buf, o, 0x10B)
    struct.pack_into("<I", buf, o + 28, 0x400000)       # ImageBase
    struct.pack_into("<II", buf, o + 32, 0x1000, file_align)  # SectionAlignment, FileAlignment
    struct.pack_into("<I", buf, o + 56, 0x2000)         # SizeOfImage
    struct.pack_into("<I", buf, o + 60, raw)            # SizeOfHeaders
    struct.pack_into("<I", buf, o + 92, 16)             # NumberOfRvaAndSizes
    struct.pack_into("<8sIIIIIIHHI", buf, table, b".text", payload_len, 0x1000, payload_len, raw, 0, 0, 0, 0, 0x60000020)
    buf[raw:] = b"\xcc" * payload_len
    struct.pack_into("<I", buf, 0x3C, lfanew)
    return bytes(buf)


def valid_pe_dir(nsec, dir_index, va, size, overlay=0):
    """valid_pe(nsec) with data directory `dir_index` set to (va, size) and `overlay` bytes appended after the last section
    (a signature / certificate table lives there and is addressed by FILE offset; every other directory by RVA)."""
    img = bytearray(valid_pe(nsec))
    o = 0x40 + 4 + 20 + 96 + 8 * dir_index
    struct.pack_into("<II", img, o, va & 0xFFFFFFFF, size & 0xFFFFFFFF)
    return bytes(img) + b"\x30" * overlay
