"""Run one work unit (or one replay) of a property module in THIS interpreter and write the packed record to stdout.

Used for the interpreter-configuration axis: the parent starts `python -O -m mdmc.childunit ...` so that the unit is executed by
the real code with `assert` statements (and, under -OO, docstrings) stripped -- an environment answer the library does not control.
"""
from __future__ import annotations

import base64
import importlib
import os
import pickle
import sys

from mdmc import core


def main(argv):
    mode, modname, blob, out = argv
    arg = pickle.loads(base64.b64decode(blob))
    cfg = os.environ.get("MDMC_HOSTCFG", "")
    if cfg == "@debuglog":
        import logging

        logging.basicConfig(level=logging.DEBUG, stream=open(os.devnull, "w"))
        logging.getLogger().setLevel(logging.DEBUG)
        logging.getLogger("multidecoder").setLevel(logging.DEBUG)
    elif cfg == "@env":
        import locale

        try:
            locale.setlocale(locale.LC_ALL, "C")
        except locale.Error:
            pass
    core.bind()
    if mode == "unit":
        packed = core._call((modname, arg))
    else:
        mod = importlib.import_module(modname)
        rec = core.Rec(mod.ID)
        core.WATCH.install()
        try:
            mod.replay(arg, rec)
        except core.AbortUnit:
            pass
        packed = rec.pack()
    with open(out + ".tmp", "wb") as f:
        f.write(pickle.dumps(packed))
    os.replace(out + ".tmp", out)


if __name__ == "__main__":
    main(sys.argv[1:])
