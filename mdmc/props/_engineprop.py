"""Shared driver for the engine-level properties: hitx configuration blocks + shipped-decoder streams."""
from __future__ import annotations

from mdmc.engines import hitx, streams


def plan(b):
    units = []
    for blk_kind in ("full", "ties"):
        for bi, blk in enumerate(b.get(blk_kind, [])):
            for ci in range(len(hitx.candidates(blk["N"], blk.get("kinds", hitx.KINDS)))):
                units.append((blk_kind, bi, ci))
    if b.get("streams") in STRETCH and not b.get("no_stretch"):
        for si, blk in enumerate(STRETCH[b["streams"]]):
            for ci in range(len(hitx.candidates(STRETCH_N, blk["kinds"]))):
                units.append(("stretch", b["streams"], si, ci))
    if b.get("streams"):
        for u in streams.plan(b["streams"], lite=b.get("streams_lite", 0), fams=b.get("stream_families")):
            units.append(("stream", u))
    return units


# Stretched configurations: the N+1 boundary points of a small configuration are mapped to offsets whose gaps are 1 or BIG bytes (every
# assignment of gaps, at most `max_big` of them BIG), so the SAME hit configurations are replayed with spans and values that cross a size
# boundary (4096, 65536, 2^24) while other spans stay 1 byte apart.  The text is a period-7 filler; the reference machine is run on the same text.
STRETCH_N = 3
STRETCH = {
    "quick": [dict(big=5000, kinds=hitx.KINDS + ("dH",), K=2, depths=(2,), modes=("r0", "rp"), max_big=3),
              dict(big=(1 << 24) + 1, kinds=("p", "q", "d1", "dE"), K=2, depths=(2,), modes=("r0",), max_big=2)],
    "thorough": [dict(big=5000, kinds=hitx.KINDS + ("dH",), K=2, depths=(1, 2, 3), modes=hitx.MODES, max_big=3),
                 dict(big=70000, kinds=hitx.KINDS + ("dH",), K=2, depths=(2,), modes=("r0", "rp"), max_big=3),
                 dict(big=(1 << 24) + 1, kinds=("p", "q", "u", "d1", "dE", "dH", "k"), K=2, depths=(2,), modes=("r0", "rp"), max_big=2)],
}


def stretch_maps(big, max_big):
    import itertools
    out = []
    for gaps in itertools.product((1, big), repeat=STRETCH_N):
        if 1 <= sum(g == big for g in gaps) <= max_big:
            pos = [0]
            for g in gaps:
                pos.append(pos[-1] + g)
            out.append((gaps, pos))
    return out


def stretch_text(n):
    return (b"abcdefg" * (n // 7 + 1))[:n]


def run_stretch(rec, clause_total, big, gaps, hits, depth, mode, on_run):
    pos = [0]
    for g in gaps:
        pos.append(pos[-1] + g)
    T = stretch_text(pos[-1])
    real = tuple((pos[a], pos[b], k) for a, b, k in hits)
    size = len(hits) * 100 + sum(g > 1 for g in gaps) * 10 + depth
    w = {"engine": "hitx-stretch", "big": big, "gaps": list(gaps), "hits": [list(h) for h in hits], "stretched_hits": [list(h) for h in real],
         "depth": depth, "mode": mode, "text": "(b'abcdefg' * n)[:%d]" % pos[-1]}
    rec.count("evaluations")
    ok, run = rec.guard(clause_total, w, size, hitx.execute, T, real, depth, mode, False)
    if ok:
        rec.count("traces")
        rec.count("transitions", run.trace.transitions)
        for s in run.trace.states:
            rec.mark("states", s)
        on_run(rec, run, w, size)


SMALL = dict(N=4, K=2, depths=(1, 2), modes=("r0", "rp", "rd"), grouped=(False,))


def interp_units(tier):
    """The interpreter-configuration axis: the whole SMALL block (every configuration of <= 2 hits) and the `ctx` stream family,
    executed by child interpreters started with -O and -OO (assert statements stripped)."""
    from mdmc import core
    out = []
    for flag in core.INTERP_FLAGS:
        out.append(("interp", flag, (tier, "small")))
        out += [("interp", flag, (tier, "small-streams", i, 6)) for i in range(6)]
    return out


def run_config(rec, clause_total, T, hits, depth, mode, grouped, on_run):
    size = len(hits) * 100 + max(depth, 0) * 10 + hitx.ALL_MODES.index(mode) + (5 if grouped else 0)
    w = {"engine": "hitx", "T": T, "hits": [list(h) for h in hits], "depth": depth, "mode": mode, "grouped": grouped}
    rec.count("evaluations")
    ok, run = rec.guard(clause_total, w, size, hitx.execute, T, hits, depth, mode, grouped)
    if ok:
        rec.count("traces")
        rec.count("transitions", run.trace.transitions)
        for s in run.trace.states:
            rec.mark("states", s)
        on_run(rec, run, w, size)
    return run if ok else None


def run_unit(unit, rec, b, clause_total, on_run, on_case, stream_depths=(10,)):
    kind = unit[0]
    if kind in ("full", "ties"):
        _, bi, ci = unit
        blk = b[kind][bi]
        kinds = blk.get("kinds", hitx.KINDS)
        T = hitx.text_for(blk["N"], blk.get("hi", False))
        first = hitx.candidates(blk["N"], kinds)[ci]
        hits = ()
        for hits in hitx.configs_from(first, blk["N"], blk["K"], kinds=kinds, tie_perms_only=(kind == "ties")):
            for depth in blk["depths"]:
                for mode in blk["modes"]:
                    for grouped in blk["grouped"]:
                        if grouped in (True, "shared", "bound") and len(hits) < 2:
                            continue
                        run_config(rec, clause_total, T, hits, depth, mode, grouped, on_run)
        rec.sample({"unit": list(unit), "text": T, "last_configuration": [list(h) for h in hits],
                    "depths": list(blk["depths"]), "modes": list(blk["modes"])})
    elif kind == "stream":
        streams.run_unit(unit[1], rec, on_case, depths=stream_depths)
    elif kind == "stretch":
        blk = STRETCH[unit[1]][unit[2]]
        first = hitx.candidates(STRETCH_N, blk["kinds"])[unit[3]]
        n = 0
        for hits in hitx.configs_from(first, STRETCH_N, blk["K"], kinds=blk["kinds"]):
            for gaps, _ in stretch_maps(blk["big"], blk["max_big"]):
                for depth in blk["depths"]:
                    for mode in blk["modes"]:
                        run_stretch(rec, clause_total, blk["big"], gaps, hits, depth, mode, on_run)
                        n += 1
        rec.sample({"unit": list(unit), "big": blk["big"], "first_hit": list(first), "stretched_configurations": n})
    elif kind == "small":
        T = hitx.text_for(SMALL["N"], False)
        n = 0
        for first in hitx.candidates(SMALL["N"], hitx.KINDS):
            for hits in hitx.configs_from(first, SMALL["N"], SMALL["K"], kinds=hitx.KINDS):
                for depth in SMALL["depths"]:
                    for mode in SMALL["modes"]:
                        run_config(rec, clause_total, T, hits, depth, mode, False, on_run)
                        n += 1
        rec.sample({"unit": "small", "text": T, "configurations": n})
    elif kind == "small-streams":
        for u in streams.plan("quick", lite=1, fams=["ctx", "mix"])[unit[1]::unit[2]]:
            streams.run_unit(u, rec, on_case, depths=stream_depths)


def replay(w, rec, clause_total, on_run, on_case):
    if w.get("engine") == "hitx-stretch":
        run_stretch(rec, clause_total, w["big"], tuple(w["gaps"]), tuple(tuple(h) for h in w["hits"]), w["depth"], w["mode"], on_run)
    elif w.get("engine") == "hitx":
        run_config(rec, clause_total, w["T"], tuple(tuple(h) for h in w["hits"]), w["depth"], w["mode"], w["grouped"], on_run)
    elif w.get("engine") == "stream":
        streams.replay(w, rec, on_case)


RULE_STRETCH = (
    "Stretched configurations: every configuration of <= 2 hits over N=3 is replayed with its 4 boundary points mapped to offsets whose gaps are 1 or BIG bytes "
    "(every assignment with at least one BIG gap; BIG = 5000 with all kinds + dH [unlabelled decoding to half the length], thorough also 70000; BIG = 2^24+1 with kinds p,q,d1,dE "
    "and at most two BIG gaps, texts up to 32 MiB), so spans, values and span differences cross 4096 / 65536 / 2^24 while neighbouring spans stay one byte apart; same model, same monitors. "
)
RULE_PREFIX = (
    "configuration = text of N distinct bytes x ordered list (registry order) of <=K hits, each hit = interval x kind "
    f"{hitx.KINDS} x depth budget x recursion mode {hitx.MODES} x grouping; ALL configurations of each 'full' block are enumerated "
    "(BFS by number of hits, partitioned by first hit) and executed on the real Multidecoder(registry).scan through a synthetic "
    "registry whose entries are wrapped to record every returned hit before the engine touches it; 'streams' = every distinct byte "
    "string spelled by <=L tokens of each scan-level family (mdmc/families.py), scanned with the shipped decoders + fixture keywords "
    "under the same wrappers. states = distinct reference-machine states (open-context chain, decoded-region end, text length) "
    "visited, transitions = hits processed, traces = executions checked by the monitor. Interpreter axis: the block N=4,K<=2,depths 1-2,modes r0/rp/rd and the "
    "`ctx`/`mix` stream families (L-1) are additionally executed in child interpreters started with -O and -OO (assert statements stripped). "
)
