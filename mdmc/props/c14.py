"""C14  Character-escape decodings (XML refs, chr(), unescape(), UTF-16) are exact."""
from __future__ import annotations

import itertools

from multidecoder.decoders import chr as mdchr
from multidecoder.decoders import codec, javascript, xml

from mdmc import core, trees
from mdmc.engines import streams
from mdmc.engines.seqx import Family
from mdmc.refs import codec_ref, url_ref

ID = "C14"
TITLE = "Character-escape decodings (XML refs, chr(), unescape(), UTF-16) are exact"

XML_MENU = [b"&#65;", b"&#x4a;", b"&#0;", b"&#255;", b"&#xzz;", b"&#256;", b"x", b"&#10;"]
XML_FAM = Family("c14-xml", [m.decode("latin-1") for m in XML_MENU], {"quick": 6, "thorough": 7})
# self-similar runs: references whose decoded bytes spell references again ('&', '#', 'x', digits, ';' in both notations)
XML_SELF = [b"&#x26;", b"&#38;", b"&#x23;", b"&#35;", b"&#x39;", b"&#57;", b"&#x3b;", b"&#59;", b"&#x78;", b"&#120;"]
XML_SELF_FAM = Family("c14-xml-self", [m.decode("latin-1") for m in XML_SELF], {"quick": 5, "thorough": 6})
UNESC_FAM = Family("c14-unescape", ["%41", "%zz", "%", "%u0041", "+", "a", "%e9", "%0", "%00", "\\", "%2F", "\"", " ", ")", "(", "%25", "41", "%ud83d", "%ude00"], {"quick": 4, "thorough": 5},
                   wraps=[(b"unescape('", b"')"), (b"x=unescape('", b"');y"), (b"unescape('", b"') unescape('%42')")])
U16_FAM = Family("c14-utf16", ["a\x00", "\xe9\x00", "\x00\x00", "\x7f\x00", "\x1f\x00", "\xff\x00", "\x09\x00", "a", "\x00",
                               "h\x00t\x00t\x00p\x00:\x00/\x00/\x00"], {"quick": 7, "thorough": 8})
STREAM_FAMS = ["xml", "esc", "mix", "ctx", "pairs"]


def xml_full_set():
    out = []
    for v in range(0, 300):
        out.append(b"&#%d;" % v)
        if v < 100:
            out.append(b"&#%03d;" % v)
            out.append(b"&#%02d;" % v)
        out.append(b"&#%04d;" % v)
    for v in range(256):
        out.append(b"&#x%02x;" % v)
        out.append(b"&#X%02X;" % v)
    out += [b"&#xzz;", b"&#x4;", b"&#x4g;", b"&#x041;", b"&#;", b"&#x;", b"&#1", b"&#-1;", b"&# 1;", b"&#1e1;"]
    return sorted(set(out))


def describe(tier):
    return {
        "rule": (
            "XML: (a) every string of <= %d tokens over %s and (b) every reference of the full set (decimal 0..299 with 0-3 leading zeros, every "
            "2-digit hex in both cases, 10 malformed forms; %d references) in first, middle and last position of a run of 5 and of 6 built from "
            "a 3-reference menu, and (c) every string of <= L tokens over the self-similar menu (references to '&', '#', 'x', '9', ';' in decimal and hex: runs whose decoding spells references again) -- find_xml_hex's complete result list is compared with a regex-free reference (maximal runs of >= 5 valid references). "
            "chr: chr/ChrW/chrb(n) for EVERY n in 0..99999 x 0-2 leading zeros against an own UTF-8 encoder (unencodable => no result). "
            "unescape: every string of <= %d tokens over the escape alphabet inside unescape('...') x 3 embeddings, and every single %%XX (256 x 2 cases), "
            "against an own percent decoder. UTF-16: every string of <= %d tokens over %d byte-pair tokens, and every Latin-1 code unit 0..255 at "
            "first/middle/last position of a run of 7, against a reference run finder + own UTF-8 encoder; runs of 6/7/8; separator forms are checked "
            "in the forward direction. Forward monitor: every node labelled unescape.xml / function.chr / function.unescape / codec.uft-16 in every scan "
            "of the xml/esc/mix scan-level families must satisfy the same relation to the text it replaced. states = distinct inputs, "
            "transitions = result nodes compared, traces = decoder calls compared. Non-trivial = input where the reference expects a result."
            % (XML_FAM.L[tier], [m.decode() for m in XML_MENU], len(xml_full_set()), UNESC_FAM.L[tier], U16_FAM.L[tier], len(U16_FAM.tokens))
        ),
        "bounds": {"xml": XML_FAM.describe(tier), "xml_self_similar": XML_SELF_FAM.describe(tier), "unescape": UNESC_FAM.describe(tier), "utf16": U16_FAM.describe(tier), "chr": "0..99999 x 3 spellings x 3 zero paddings"},
        "assumptions": ["decimal references are at most 3 digits (leading zeros included), as the statement's 'decimal 0-255'",
                        "UTF-16 runs joined by NUL NUL separators (wide-string lists) are outside the statement; only the forward relation is checked for them"],
        "exhaustive": True,
    }


def plan(tier, seed):
    units = [("xml", tier, u[2]) for u in XML_FAM.units(tier)]
    units += [("xmlself", tier, u[2]) for u in XML_SELF_FAM.units(tier)]
    units += [("xmlfull", i, 16) for i in range(16)]
    units += [("chr", i, 16) for i in range(16)]
    units += [("unesc", tier, u[2]) for u in UNESC_FAM.units(tier)] + [("unesc256",)]
    units += [("u16", tier, u[2]) for u in U16_FAM.units(tier)] + [("u16all",)]
    units += [("stream", u) for u in streams.plan(tier, fams=STREAM_FAMS)]
    units += core.interp_axis([("unesc256",), ("u16all",), ("xmlfull", 0, 16), ("chr", 0, 64)])
    return units


def compare(rec, clause, fn, data, exp, w, typ, label):
    rec.count("evaluations")
    ok, hits = rec.guard("C14.total", w, len(data), fn, data)
    if not ok:
        return
    rec.count("traces")
    rec.count("transitions", len(hits) + 1)
    got = [(h.start, h.end, h.value) for h in hits]
    if exp:
        rec.mark("nontrivial", data)
    if not hits or core.h64(data) % 4 == 0:
        # every empty result, and a quarter of the others: the returned list is the caller's
        ok2, mine = rec.guard("C14.total", w, len(data), trees.result_is_callers, fn, data, hits)
        if ok2 and not mine:
            rec.violation(clause + ".result-owned-by-caller", f"{label}|shared-result-list", w,
                          f"{fn.__name__}({core.short(data, 60)}): after the caller appended to the returned list, the same call returns a different result", len(data))
    bad = [h for h in hits if h.type != typ or h.obfuscation != label]
    if bad:
        rec.violation(clause + ".label", f"{label}|type-or-label", w, f"{fn.__name__}: node typed {bad[0].type!r} labelled {bad[0].obfuscation!r}", len(data))
    if got != exp:
        if len(got) != len(exp):
            cause = "missing" if len(got) < len(exp) else "extra"
        else:
            g, e = [(g, e) for g, e in zip(got, exp) if g != e][0]
            cause = "span" if g[:2] != e[:2] else "value"
        rec.violation(clause, f"{label}|{cause}", w, f"{fn.__name__}({core.short(data, 80)}) = {core.short(got, 200)}; expected {core.short(exp, 200)} ({cause})", len(data))


def run_xml(rec, data):
    compare(rec, "C14.xml", xml.find_xml_hex, data, codec_ref.xml_runs(data), {"kind": "xml", "data": data}, "", "unescape.xml")


def chr_expected(data):
    out = []
    low = data.lower()
    i = 0
    while True:
        i = low.find(b"chr", i)
        if i < 0:
            break
        j = i + 3
        if low[j : j + 1] in (b"b", b"w"):
            j += 1
        if low[j : j + 1] == b"(":
            k = j + 1
            while k < len(low) and 48 <= low[k] <= 57:
                k += 1
            digits = low[j + 1 : k]
            if digits and low[k : k + 1] == b")" and len(digits.lstrip(b"0") or b"0") <= 5 and (len(digits.lstrip(b"0")) >= 1 or True):
                # CHR grammar: 0* followed by 1-5 digits
                if len(digits) >= 1 and _chr_digits_ok(digits):
                    v = codec_ref.utf8_of_codepoint(int(digits))
                    if v is not None:
                        out.append((i, k + 1, v))
                    i = k + 1
                    continue
        i += 1
    return out


def _chr_digits_ok(d: bytes) -> bool:
    # 0*\d{1,5}: any number of zeros then 1..5 digits -> total digits with at most 5 after the leading-zero run, or all zeros
    stripped = d.lstrip(b"0")
    return len(stripped) <= 5


def run_chr(rec, data):
    compare(rec, "C14.chr", mdchr.find_chr, data, chr_expected(data), {"kind": "chr", "data": data}, "string", "function.chr")


def unesc_expected(data):
    out = []
    i = 0
    while True:
        i = data.find(b"unescape('", i)
        if i < 0:
            break
        j = data.find(b"'", i + 10)
        if j < 0:
            break
        if data[j + 1 : j + 2] == b")":
            out.append((i, j + 2, url_ref.pct_decode(data[i + 10 : j])))
            i = j + 2
        else:
            i += 1
    return out


def run_unesc(rec, data):
    compare(rec, "C14.unescape", javascript.find_unescape, data, unesc_expected(data), {"kind": "unesc", "data": data}, "string", "function.unescape")


def run_u16(rec, data):
    exp = codec_ref.utf16_runs(data)
    w = {"kind": "u16", "data": data}
    # a run directly followed by NUL NUL + another run is a wide-string list: outside the statement, forward relation only
    joined = any(data[e : e + 2] == b"\x00\x00" and any(s2 in (e + 2, e + 4) for s2, _, _ in exp) for _, e, _ in exp)
    if joined:
        rec.note("utf16 separator form (forward only)")
        ok, hits = rec.guard("C14.total", w, len(data), codec.find_utf16, data)
        rec.count("evaluations")
        if ok:
            rec.count("traces")
            for h in hits:
                forward_u16(rec, data[h.start : h.end], h.value, w, len(data))
        return
    compare(rec, "C14.utf16", codec.find_utf16, data, exp, w, "", "codec.uft-16")


def forward_u16(rec, orig, value, w, size):
    rec.count("transitions")
    if len(orig) % 2:
        rec.violation("C14.utf16", "codec.uft-16|odd-span", w, f"UTF-16 node covers an odd number of bytes: {core.short(orig, 60)}", size)
        return
    exp = b"".join(codec_ref.utf8_of_codepoint(orig[i] | orig[i + 1] << 8) or b"?" for i in range(0, len(orig), 2))
    if value != exp:
        rec.violation("C14.utf16", "codec.uft-16|value", w, f"UTF-16 node over {core.short(orig, 60)} has value {core.short(value, 60)}, expected {core.short(exp, 60)}", size)


def stream_monitor(rec, case):
    w = case.witness()
    for n in trees.walk(case.tree):
        h = case.log.hits.get(id(n))
        if h is None:
            continue
        _, _, _, text, a, b = h
        orig = text[a:b]
        lab = n.obfuscation
        if lab in ("unescape.xml", "function.chr", "function.unescape", "codec.uft-16") and len(case.data) <= 200:
            # the relation to the replaced text must survive the ways a caller hands a finding on (copy, deepcopy, pickle)
            ok, bad = rec.guard("C14.total", w, case.size, trees.copies_keep_context, n)
            if ok and bad:
                rec.violation("C14.relation-survives-copy", f"{lab}|copy-loses-replaced-text", w,
                              f"{lab} node {core.short(n.value, 40)}: after {bad} the copy no longer reports the text it replaced ({core.short(n.original, 60)})", case.size)
        if lab == "unescape.xml":
            rec.count("transitions")
            runs = codec_ref.xml_runs(orig)
            if runs != [(0, len(orig), n.value)]:
                rec.violation("C14.xml", "unescape.xml|forward", w, f"unescape.xml node over {core.short(orig, 80)} has value {core.short(n.value, 60)}; reference {core.short(runs, 120)}", case.size)
        elif lab == "function.chr":
            rec.count("transitions")
            exp = chr_expected(orig)
            if exp != [(0, len(orig), n.value)]:
                rec.violation("C14.chr", "function.chr|forward", w, f"function.chr node over {orig!r} has value {n.value!r}; reference {exp!r}", case.size)
        elif lab == "function.unescape":
            rec.count("transitions")
            exp = unesc_expected(orig)
            if exp != [(0, len(orig), n.value)]:
                rec.violation("C14.unescape", "function.unescape|forward", w, f"function.unescape node over {orig!r} has value {n.value!r}; reference {exp!r}", case.size)
        elif lab == "codec.uft-16":
            forward_u16(rec, orig, n.value, w, case.size)


def run_unit(unit, rec):
    kind = unit[0]
    if kind == "xml":
        for level, s, unique in XML_FAM.states(unit[1], unit[2]):
            rec.mark("states", s, unique)
            run_xml(rec, s)
        rec.sample({"family": "xml-tokens", "last": s})
    elif kind == "xmlself":
        for level, s, unique in XML_SELF_FAM.states(unit[1], unit[2]):
            rec.mark("states", s, unique)
            run_xml(rec, s)
        rec.sample({"family": "xml-self-similar", "last": s})
    elif kind == "xmlfull":
        full = xml_full_set()
        menu = [b"&#65;", b"&#x4a;", b"&#0;"]
        for ri in range(unit[1], len(full), unit[2]):
            r = full[ri]
            for n in (5, 6):
                for pos in (0, n // 2, n - 1):
                    for rest in itertools.product(menu, repeat=n - 1):
                        seq = list(rest[:pos]) + [r] + list(rest[pos:])
                        data = b"t " + b"".join(seq) + b" t"
                        rec.mark("states", data, True)
                        run_xml(rec, data)
        rec.sample({"family": "xml-full-set", "last": data})
    elif kind == "chr":
        for num in range(unit[1], 100000, unit[2]):
            for zeros in (b"", b"0", b"00"):
                for name in (b"chr", b"ChrW", b"chrb"):
                    data = b"a=" + name + b"(" + zeros + b"%d" % num + b")&x"
                    rec.mark("states", data, True)
                    run_chr(rec, data)
        for extra in (b"chr(123456)", b"chr(0000065)", b"chr()", b"chr(65", b"chrx(65)", b"Chr(65)chr(66)", b"chr( 65)", b"chr(1114111)", b"chr(65)" * 3):
            run_chr(rec, extra)
        rec.sample({"family": "chr", "last": data})
    elif kind == "unesc":
        for level, s, unique in UNESC_FAM.states(unit[1], unit[2]):
            rec.mark("states", s, unique)
            for pre, suf in UNESC_FAM.wraps:
                run_unesc(rec, pre + s + suf)
        rec.sample({"family": "unescape", "last": pre + s + suf})
    elif kind == "unesc256":
        for v in range(256):
            for fmt in (b"%%%02x", b"%%%02X"):
                data = b"unescape('a" + fmt % v + b"b')"
                rec.mark("states", data, True)
                run_unesc(rec, data)
        rec.sample({"family": "unescape-256", "last": data})
    elif kind == "u16":
        for level, s, unique in U16_FAM.states(unit[1], unit[2]):
            rec.mark("states", s, unique)
            run_u16(rec, s)
        rec.sample({"family": "utf16-tokens", "last": s})
    elif kind == "u16all":
        for c in range(256):
            for n in (6, 7, 8):
                for pos in (0, n // 2, n - 1):
                    units = [b"a\x00"] * n
                    units[pos] = bytes([c, 0])
                    for pre, suf in ((b"", b""), (b"\x01", b"\x02\x03"), (b"zz", b"z")):
                        data = pre + b"".join(units) + suf
                        rec.mark("states", data, True)
                        run_u16(rec, data)
        rec.sample({"family": "utf16-all-code-units", "last": data})
    elif kind == "stream":
        streams.run_unit(unit[1], rec, stream_monitor, repeat=2)


def replay(w, rec):
    k = w.get("kind")
    if k == "xml":
        run_xml(rec, w["data"])
    elif k == "chr":
        run_chr(rec, w["data"])
    elif k == "unesc":
        run_unesc(rec, w["data"])
    elif k == "u16":
        run_u16(rec, w["data"])
    elif w.get("engine") == "stream":
        streams.replay(w, rec, stream_monitor)
