"""C18  The registry contains every shipped decoder and honours configuration."""
from __future__ import annotations

import ast
import itertools
import os
import shutil
import tempfile

import multidecoder
from multidecoder import registry as mdreg
from multidecoder.multidecoder import Multidecoder

from mdmc import core

ID = "C18"
TITLE = "The registry contains every shipped decoder and honours configuration"

DEC_DIR = os.path.join(os.path.dirname(multidecoder.__file__), "decoders")
KW_DIR = os.path.join(os.path.dirname(multidecoder.__file__), "keywords")
U5 = ["base64", "powershell", "hex", "network", "path"]

# keyword file kinds: (relative name, content)
KINDS = [
    ("empty", b""),
    ("blank.lines", b"\n\n\r\n"),
    ("lf.name", b"alpha\nBeta\n"),
    ("crlf", b"gamma\r\ndelta\r\n\r\n"),
    ("dup.words.x", b"eps\neps\nEPS\n"),
    ("trailing", b"zeta \neta"),
    (os.path.join("sub", "dir", "nested.api"), b"theta\n\niota\n"),
    (os.path.join("sub2", "lf.name"), b"kappa\n"),  # same file name as the top-level lf.name
    (".dot.file", b"lam\n"),
    ("hi.first", b"\xef\xbc\xb0ower\n\xbfq\n\xbbr\r\n"),  # first and later lines start with the bytes of a UTF-8 BOM
    ("bom.file", b"\xef\xbb\xbfnu\nxi\n"),
    (os.path.join(".hid", "inner"), b"mu\n"),
    (os.path.join("sub3", "lf.name"), b"Beta\r\nalpha\n\nalpha\n"),  # same file name AND same word set as the top-level lf.name: still a file of its own
]
DIR_NAMES = ["c18kw", "c18[v2]kw", "c18*kw?", "c18 kw"]


def describe(tier):
    return {
        "rule": (
            "E5 cfgx. Decoders: expected set = top-level functions syntactically decorated @decoder, from an AST walk of src/multidecoder/decoders/*.py. "
            f"EVERY (include, exclude) pair with include a non-empty subset of {U5} or None and exclude any subset or None (1056 pairs), every single "
            "module and every pair of modules as include and as exclude over all 16 modules, include given as list/tuple/set/generator, unknown names; "
            + ("all 2^16 include subsets; " if tier == "thorough" else "") +
            "user modules named like shipped decoder modules (userplugins.network, userplugins.hex, a top-level shell.py) that use the public @decoder decorator, imported before or after the first build; oracle: the (module, function) set held by get_analyzers / build_registry equals the expected one, each function exactly once. Keywords: "
            f"ALL {2 ** len(KINDS)} subsets of {len(KINDS)} file kinds (empty, blank lines only, LF, CRLF, duplicates and case variants, trailing space, nested "
            "sub-directory, dots in names, the same file name in two directories (with different and with identical word sets), dot-prefixed files and directories; the directory itself named with glob characters / blanks, given as an absolute path and as four relative spellings, and a custom directory literally called 'keywords') are materialised; every non-decoder registry entry is observed behaviourally on a probe text that contains every "
            "word: the (type, value) pairs it reports must be exactly (file name, word) for the non-blank lines of one file, one entry per non-empty file; the "
            "decoder part of a registry built with a custom directory must equal the default decoder part. The shipped keyword directory is walked "
            "independently and compared the same way. Directory HISTORIES: one directory path (files tag, other, sub/inner) is built, then edited by every sequence of <= "
            f"{HIST_DEPTH[tier]} events out of {[e[0] for e in HIST_EVENTS]} (in-place rewrites that leave the directory's own mtime alone, same-size rewrites with the file's mtime restored, files added / removed below an existing sub-directory, top-level additions with the directory's mtime restored) and built again after EVERY event through build_registry / get_keywords / Multidecoder, each build compared with what is on disk at that moment (a registry must not remember an earlier state of the directory). states = distinct configurations, transitions = registry entries examined, traces = registries "
            "built and compared. Non-trivial = configuration that selects a proper, non-empty subset."
        ),
        "bounds": {"universe5": U5, "keyword_file_kinds": [k[0] for k in KINDS]},
        "assumptions": ["an empty include list is not exercised: the statement does not say whether it means 'no include list' or 'nothing'",
                        "a decoder that loses its marker disappears from both sides of this oracle; that change is caught behaviourally by C02/C11/C13-C16"],
        "exhaustive": True,
    }


def ast_decoders():
    out = {}
    for f in sorted(os.listdir(DEC_DIR)):
        if not f.endswith(".py") or f == "__init__.py":
            continue
        mod = f[:-3]
        out[mod] = set()
        with open(os.path.join(DEC_DIR, f)) as fh:
            tree = ast.parse(fh.read())
        for node in tree.body:
            if isinstance(node, (ast.FunctionDef, ast.AsyncFunctionDef)):
                for d in node.decorator_list:
                    name = d.id if isinstance(d, ast.Name) else (d.attr if isinstance(d, ast.Attribute) else None)
                    if name == "decoder":
                        out[mod].add(node.name)
    return out


def plan(tier, seed):
    units = [("u5", i) for i in range(32)]
    units += [("single-pair", "include"), ("single-pair", "exclude"), ("iterables",), ("default",)]
    if tier == "thorough":
        units += [("all-include", i) for i in range(16)]
    units += [("kwdirs", i) for i in range(64)]
    units += [("foreign",)]
    units += [("kwhist", i, tier) for i in range(len(HIST_EVENTS))]
    return units


# ---- directory histories: the SAME directory path is built again after every edit; what is built must be what is on disk now ----------------
def _write(p, content):
    os.makedirs(os.path.dirname(p), exist_ok=True)
    with open(p, "wb") as f:
        f.write(content)


def _inplace(p, content, keep_times=False):
    """rewrite an existing file without touching its directory entry (the directory's mtime does not move)"""
    st = os.stat(p)
    with open(p, "r+b") as f:
        f.truncate(0)
        f.write(content)
    if keep_times:
        os.utime(p, ns=(st.st_atime_ns, st.st_mtime_ns))


def _rm(p):
    if os.path.exists(p):
        os.unlink(p)


def _keep_dir_time(top, fn):
    st = os.stat(top)
    fn()
    os.utime(top, ns=(st.st_atime_ns, st.st_mtime_ns))


HIST_EVENTS = [
    ("edit-top-inplace", lambda d: _inplace(os.path.join(d, "tag"), b"uno\ndos\n")),
    ("edit-top-same-size-same-mtime", lambda d: _inplace(os.path.join(d, "tag"), b"two\none\n"[: len(open(os.path.join(d, "tag"), "rb").read())].ljust(len(open(os.path.join(d, "tag"), "rb").read()), b"z"), True)),
    ("empty-top-inplace", lambda d: _inplace(os.path.join(d, "tag"), b"\n")),
    ("edit-sub-inplace", lambda d: _inplace(os.path.join(d, "sub", "inner"), b"tres\n")),
    ("add-in-sub", lambda d: _write(os.path.join(d, "sub", "extra"), b"quatro\n")),
    ("rm-in-sub", lambda d: _rm(os.path.join(d, "sub", "inner"))),
    ("add-top", lambda d: _write(os.path.join(d, "newtop"), b"cinco\n")),
    ("rm-top", lambda d: _rm(os.path.join(d, "other"))),
    ("add-top-dir-time-kept", lambda d: _keep_dir_time(d, lambda: _write(os.path.join(d, "quiet"), b"seis\n"))),
    ("new-subdir", lambda d: _write(os.path.join(d, "sub9", "deep", "f"), b"siete\n")),
]
HIST_DEPTH = {"quick": 3, "thorough": 4}
BUILDERS = [("build_registry", lambda d: mdreg.build_registry(d)), ("get_keywords", lambda d: mdreg.build_registry()[:0] + held_all(mdreg.get_keywords(d))),
            ("Multidecoder", lambda d: __import__("multidecoder.multidecoder", fromlist=["Multidecoder"]).Multidecoder(mdreg.build_registry(d)).decoders)]


def held_all(reg):
    return mdreg.get_analyzers() + list(reg)


def run_kwhist(rec, astd, first, tier="quick", only=None):
    depth = HIST_DEPTH[tier]
    rest = list(range(len(HIST_EVENTS)))
    hists = [only] if only is not None else [(first,) + t for L in range(depth) for t in itertools.product(rest, repeat=L)]
    for hist in hists:
        tmp = tempfile.mkdtemp(prefix="c18hist")
        try:
            _write(os.path.join(tmp, "tag"), b"one\ntwo\n")
            _write(os.path.join(tmp, "other"), b"three\n")
            _write(os.path.join(tmp, "sub", "inner"), b"four\n")
            for bi, (bname, build) in enumerate(BUILDERS):
                if only is None and (sum(hist) + len(hist)) % len(BUILDERS) != bi and len(hist) > 2:
                    continue  # depth <= 2: every builder; deeper: one builder per history, all three over the family
                # rebuild the starting layout for this builder
                shutil.rmtree(tmp, ignore_errors=True)
                _write(os.path.join(tmp, "tag"), b"one\ntwo\n")
                _write(os.path.join(tmp, "other"), b"three\n")
                _write(os.path.join(tmp, "sub", "inner"), b"four\n")
                w = {"kind": "kwhist", "history": [HIST_EVENTS[i][0] for i in hist], "idx": list(hist), "builder": bname}
                ok, reg = rec.guard("C18.total", w, len(hist), build, tmp)
                if ok:
                    check_keywords(rec, reg, tmp, astd, dict(w, step=0), len(hist))
                for step, ei in enumerate(hist, 1):
                    try:
                        HIST_EVENTS[ei][1](tmp)
                    except FileNotFoundError:
                        continue  # editing a file an earlier event removed: the event is not enabled
                    rec.count("evaluations")
                    rec.mark("states", 0, True)
                    rec.mark("nontrivial", 0, True)
                    ok, reg = rec.guard("C18.total", w, len(hist), build, tmp)
                    if ok:
                        rec.count("traces")
                        check_keywords(rec, reg, tmp, astd, dict(w, step=step), len(hist))
        finally:
            shutil.rmtree(tmp, ignore_errors=True)
    rec.sample({"kwhist_first_event": HIST_EVENTS[first][0] if only is None else list(only), "histories": len(hists)})


FOREIGN_CHILD = r"""
import importlib, json, os, sys, tempfile
tmp = tempfile.mkdtemp(prefix="c18foreign")
os.makedirs(os.path.join(tmp, "userplugins"))
open(os.path.join(tmp, "userplugins", "__init__.py"), "w").close()
SRC = "from multidecoder.registry import decoder\n\n@decoder\ndef %s(data):\n    return []\n"
open(os.path.join(tmp, "userplugins", "network.py"), "w").write(SRC % "find_marker")
open(os.path.join(tmp, "userplugins", "hex.py"), "w").write(SRC % "find_hex")
open(os.path.join(tmp, "shell.py"), "w").write(SRC % "find_cmd_strings")
open(os.path.join(tmp, "zzz_plugin.py"), "w").write(SRC % "find_zzz")
sys.path.insert(0, tmp)
from multidecoder import registry as mdreg
from multidecoder.multidecoder import Multidecoder
order = json.loads(sys.argv[1])
def snap(reg):
    return [[e.__module__, e.__name__] for e in reg if getattr(e, "_decoder", False) and hasattr(e, "__name__")]
out = {}
def builds(tag):
    out[tag + ":default"] = snap(mdreg.build_registry())
    out[tag + ":Multidecoder()"] = snap(Multidecoder().decoders)
    out[tag + ":include=network"] = snap(mdreg.get_analyzers(include=["network"]))
    out[tag + ":include=hex,shell"] = snap(mdreg.get_analyzers(include=["hex", "shell"]))
    out[tag + ":exclude=network"] = snap(mdreg.get_analyzers(exclude=["network"]))
if order == "import-first":
    for m in ("userplugins.network", "userplugins.hex", "shell", "zzz_plugin"):
        importlib.import_module(m)
    builds("after-import")
else:
    builds("before-import")
    for m in ("userplugins.network", "userplugins.hex", "shell", "zzz_plugin"):
        importlib.import_module(m)
    builds("after-import")
print(json.dumps(out))
"""


def run_foreign(rec, astd):
    """User code may use the public @decoder decorator in its own modules - also in modules whose last name component equals a shipped decoder
    module (userplugins.network, a top-level shell.py): the registries still hold exactly the shipped decoder modules' functions."""
    import json
    import subprocess
    import sys

    for order in ("import-first", "build-first"):
        r = subprocess.run([sys.executable, "-W", "ignore::DeprecationWarning", "-c", FOREIGN_CHILD, json.dumps(order)], capture_output=True, text=True, timeout=300)
        w = {"kind": "foreign", "order": order}
        rec.count("evaluations")
        rec.mark("states", ("foreign", order), True)
        if r.returncode != 0:
            rec.violation("C18.total", "foreign-decorated-module-breaks-build", w, f"registry build failed after user modules used @decoder: {core.short(r.stderr, 300)}", 1)
            continue
        rec.count("traces")
        rec.mark("nontrivial", 0, True)
        for tag, held_ in json.loads(r.stdout).items():
            rec.count("transitions", len(held_))
            sel = tag.split(":", 1)[1]
            inc = {"include=network": ["network"], "include=hex,shell": ["hex", "shell"]}.get(sel)
            exc = {"exclude=network": ["network"]}.get(sel)
            exp = sorted(["multidecoder.decoders." + m, f] for m, f in expected(astd, inc, exc))
            if sorted(held_) != exp:
                extra = [h for h in held_ if h not in exp]
                missing = [e for e in exp if e not in held_]
                rec.violation("C18.decoders.selection", "selection|foreign-decorated-function", dict(w, build=tag),
                              f"{tag}: with user modules userplugins.network / userplugins.hex / shell / zzz_plugin using @decoder the registry holds extra {extra[:4]} and lacks {missing[:4]}", 1)
    rec.sample({"family": "foreign-modules-using-@decoder", "orders": ["import-first", "build-first"]})


def held(reg):
    """(module, function) pairs for decoder entries, list of the other (keyword searcher) entries."""
    decs, others = [], []
    for e in reg:
        if getattr(e, "_decoder", False) and hasattr(e, "__module__") and hasattr(e, "__name__"):
            decs.append((e.__module__.rsplit(".", 1)[-1], e.__name__))
        else:
            others.append(e)
    return decs, others


def expected(astd, include, exclude):
    mods = set(astd)
    if include is not None:
        mods &= set(include)
    if exclude is not None:
        mods -= set(exclude)
    return {(m, f) for m in mods for f in astd[m]}


def check_decoders(rec, astd, include, exclude, build, w):
    rec.count("evaluations")
    rec.mark("states", 0, True)
    ok, reg = rec.guard("C18.total", w, 1, build)
    if not ok:
        return
    rec.count("traces")
    decs, _ = held(reg)
    rec.count("transitions", len(reg))
    exp = expected(astd, include, exclude)
    if 0 < len(exp) < sum(len(v) for v in astd.values()):
        rec.mark("nontrivial", 0, True)
    if len(decs) != len(set(decs)):
        dup = sorted({d for d in decs if decs.count(d) > 1})
        rec.violation("C18.decoders.once", "duplicate-decoder", w, f"registered more than once: {dup}", 1)
    if set(decs) != exp:
        missing, extra = sorted(exp - set(decs)), sorted(set(decs) - exp)
        cause = "missing" if missing and not extra else ("extra" if extra and not missing else "both")
        rec.violation("C18.decoders.selection", f"selection|{cause}", w,
                      f"include={include} exclude={exclude}: missing {missing[:6]} extra {extra[:6]} (expected {len(exp)}, held {len(set(decs))})", 1)


def subsets(items):
    for k in range(len(items) + 1):
        yield from itertools.combinations(items, k)


def probe_entry(entry, words_all):
    probe = b"\n".join(words_all) + b"\n"
    return {(h.type, h.value) for h in entry(probe)}


def expected_keywords(directory):
    out = {}
    for sub, _, files in os.walk(directory):
        for fn in files:
            with open(os.path.join(sub, fn), "rb") as f:
                words = {ln for ln in f.read().splitlines() if ln != b""}
            if words:
                out.setdefault(fn, []).append(words)
    return out


def check_keywords(rec, reg, directory, astd, w, size):
    decs, others = held(reg)
    rec.count("transitions", len(reg))
    if set(decs) != expected(astd, None, None) or len(decs) != len(set(decs)):
        rec.violation("C18.keywords.replaces-only-keywords", "decoder-part-changed", w,
                      f"with keyword directory {os.path.basename(directory)} the decoder part differs from the default one ({len(decs)} entries)", size)
    exp = expected_keywords(directory)
    exp_list = sorted((fn, tuple(sorted(ws))) for fn, lst in exp.items() for ws in lst)
    all_words = sorted({wd for _, ws in exp_list for wd in ws})
    got_list = []
    for e in others:
        seen = probe_entry(e, all_words) if all_words else set()
        labels = {t for t, _ in seen}
        if len(labels) != 1:
            got_list.append(("?" if not labels else "/".join(sorted(labels)), tuple(sorted(v for _, v in seen))))
        else:
            got_list.append((labels.pop(), tuple(sorted(v for _, v in seen))))
    got_list.sort()
    if got_list != exp_list:
        import collections
        cg, ce = collections.Counter(got_list), collections.Counter(exp_list)
        ge, eg = sorted((cg - ce).elements()), sorted((ce - cg).elements())
        cause = "missing-file" if len(got_list) < len(exp_list) else ("extra-searcher" if len(got_list) > len(exp_list) else "label-or-words")
        rec.violation("C18.keywords.searchers", f"searchers|{cause}", w,
                      f"keyword searchers observed {core.short(ge, 200)} but the directory defines {core.short(eg, 200)} ({cause})", size)


def run_unit(unit, rec):
    astd = ast_decoders()
    kind = unit[0]
    if kind == "u5":
        inc_sets = [None] + [list(s) for s in subsets(U5) if s]
        include = inc_sets[unit[1]]
        for exc in [None] + [list(s) for s in subsets(U5)]:
            w = {"kind": "analyzers", "include": include, "exclude": exc}
            check_decoders(rec, astd, include, exc, lambda: mdreg.get_analyzers(include=include, exclude=exc), w)
        rec.sample({"include": include, "excludes": 33})
    elif kind == "single-pair":
        mods = sorted(astd)
        combos = [[m] for m in mods] + [list(p) for p in itertools.combinations(mods, 2)] + [["nosuch"], [mods[0], "nosuch"]]
        for c in combos:
            if unit[1] == "include":
                w = {"kind": "analyzers", "include": c, "exclude": None}
                check_decoders(rec, astd, c, None, lambda: mdreg.get_analyzers(include=c), w)
                w2 = {"kind": "registry", "include": c, "exclude": None}
                check_decoders(rec, astd, c, None, lambda: mdreg.build_registry(include=c), w2)
            else:
                w = {"kind": "analyzers", "include": None, "exclude": c}
                check_decoders(rec, astd, None, c, lambda: mdreg.get_analyzers(exclude=c), w)
                w2 = {"kind": "registry", "include": None, "exclude": c}
                check_decoders(rec, astd, None, c, lambda: mdreg.build_registry(exclude=c), w2)
        rec.sample({"single_and_pairs_as": unit[1], "combos": len(combos)})
    elif kind == "iterables":
        inc = ["xml", "chr"]
        for name, conv in (("tuple", tuple), ("set", set), ("frozenset", frozenset), ("generator", lambda x: (i for i in x)), ("dict-keys", lambda x: dict.fromkeys(x).keys())):
            w = {"kind": "iterable", "as": name}
            check_decoders(rec, astd, inc, None, lambda: mdreg.get_analyzers(include=conv(inc)), w)
            check_decoders(rec, astd, None, inc, lambda: mdreg.get_analyzers(exclude=conv(inc)), w)
            check_decoders(rec, astd, inc, ["chr"], lambda: mdreg.get_analyzers(include=conv(inc), exclude=conv(["chr"])), w)
        rec.sample({"iterables": ["tuple", "set", "frozenset", "generator", "dict-keys"]})
    elif kind == "foreign":
        run_foreign(rec, astd)
    elif kind == "default":
        w = {"kind": "default"}
        for build, label in ((mdreg.build_registry, "build_registry()"), (lambda: Multidecoder().decoders, "Multidecoder().decoders"), (lambda: mdreg.build_registry(""), 'build_registry("")')):
            check_decoders(rec, astd, None, None, build, dict(w, via=label))
            ok, reg = rec.guard("C18.total", w, 1, build)
            if ok:
                check_keywords(rec, reg, KW_DIR, astd, dict(w, via=label), 1)
        rec.sample({"default_registry": "shipped keywords walked independently", "files": sum(len(v) for v in expected_keywords(KW_DIR).values())})
    elif kind == "all-include":
        mods = sorted(astd)
        for mask in range(unit[1], 2 ** len(mods), 16):
            inc = [m for i, m in enumerate(mods) if mask >> i & 1]
            if not inc:
                continue
            check_decoders(rec, astd, inc, None, lambda: mdreg.get_analyzers(include=inc), {"kind": "analyzers", "include": inc, "exclude": None})
        rec.sample({"all_include_subsets_mod16": unit[1]})
    elif kind == "kwdirs":
        for mask in range(unit[1], 2 ** len(KINDS), 64):
            tmp = tempfile.mkdtemp(prefix=DIR_NAMES[mask % len(DIR_NAMES)])
            try:
                for i, (name, content) in enumerate(KINDS):
                    if mask >> i & 1:
                        p = os.path.join(tmp, name)
                        os.makedirs(os.path.dirname(p), exist_ok=True)
                        with open(p, "wb") as f:
                            f.write(content)
                w = {"kind": "kwdir", "mask": mask, "files": [KINDS[i][0] for i in range(len(KINDS)) if mask >> i & 1]}
                rec.count("evaluations")
                rec.mark("states", 0, True)
                ok, reg = rec.guard("C18.total", w, mask, mdreg.build_registry, tmp)
                if ok:
                    rec.count("traces")
                    if mask:
                        rec.mark("nontrivial", 0, True)
                    check_keywords(rec, reg, tmp, astd, w, bin(mask).count("1"))
                    ok2, kwonly = rec.guard("C18.total", w, mask, mdreg.get_keywords, tmp)
                    if ok2 and len(kwonly) != len(held(reg)[1]):
                        rec.violation("C18.keywords.searchers", "get_keywords-differs-from-build_registry", w, "get_keywords and build_registry disagree on the searchers", mask)
                    if mask % 4 == 1:
                        # the same directory given as a path relative to the working directory (several spellings), and a custom directory
                        # that is literally called "keywords"
                        cwd = os.getcwd()
                        try:
                            os.chdir(os.path.dirname(tmp))
                            base = os.path.basename(tmp)
                            for rel in (base, "./" + base, base + "/", os.path.join("..", os.path.basename(os.path.dirname(tmp)), base)):
                                wr = dict(w, relative=rel)
                                ok3, reg3 = rec.guard("C18.total", wr, mask, mdreg.build_registry, rel)
                                if ok3:
                                    rec.count("traces")
                                    check_keywords(rec, reg3, tmp, astd, wr, bin(mask).count("1"))
                            os.chdir(tmp)
                            os.makedirs("keywords", exist_ok=True)
                            with open(os.path.join("keywords", "own"), "wb") as f:
                                f.write(b"omega\n")
                            ok4, reg4 = rec.guard("C18.total", dict(w, relative="keywords"), mask, mdreg.build_registry, "keywords")
                            if ok4:
                                check_keywords(rec, reg4, os.path.join(tmp, "keywords"), astd, dict(w, relative="keywords"), bin(mask).count("1"))
                        finally:
                            os.chdir(cwd)
            finally:
                shutil.rmtree(tmp, ignore_errors=True)
        rec.sample({"keyword_layout_masks_mod8": unit[1]})
    elif kind == "kwhist":
        run_kwhist(rec, astd, unit[1], unit[2] if len(unit) > 2 else "quick")


def replay(w, rec):
    astd = ast_decoders()
    k = w.get("kind")
    if k in ("analyzers", "registry"):
        inc, exc = w["include"], w["exclude"]
        fn = mdreg.get_analyzers if k == "analyzers" else mdreg.build_registry
        kwargs = {}
        if inc is not None:
            kwargs["include"] = inc
        if exc is not None:
            kwargs["exclude"] = exc
        check_decoders(rec, astd, inc, exc, lambda: fn(**kwargs), w)
    elif k == "kwdir":
        run_unit(("kwdirs", w["mask"] % 64), rec)
    elif k == "kwhist":
        run_kwhist(rec, astd, w["idx"][0], only=tuple(w["idx"]))
    elif k == "foreign":
        run_unit(("foreign",), rec)
    elif k == "default":
        run_unit(("default",), rec)
    elif k == "iterable":
        run_unit(("iterables",), rec)
