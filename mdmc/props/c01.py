"""C01  Scanning is total: no input makes a scan raise or hang; every read-only view completes."""
from __future__ import annotations

import importlib
import json
import struct

from multidecoder.json_conversion import tree_to_json
from multidecoder.multidecoder import Multidecoder
from multidecoder.node import Node
from multidecoder.query import string_summary
from multidecoder.registry import build_registry

from mdmc import core, families, pegen, trees
from mdmc.engines import streams
from mdmc.engines.seqx import Family

ID = "C01"
TITLE = "Scanning is total: no input makes a scan raise or hang"

DEPTHS_ALL = (-2, -1, 0, 1, 2, 3, 10, 10**9)

# ---- decoder-level families (deep, cheap target functions) ---------------------------------------------
DL = {}


def _dl(name, targets, tokens, L, wraps=((b"", b""),)):
    DL[name] = (Family("dl-" + name, tokens, L, wraps), targets)


_dl("carets", ["shell:strip_carets", "shell:deobfuscate_cmd"], ["^", '"', "\r", "\n", "a"], {"quick": 7, "thorough": 10})
_dl("cmd", ["shell:find_cmd_strings", "shell:get_cmd_command"],
    ["cmd", 'cmd"', '"cmd"', "c^md", " ", "a", "^", '"', "(", ")", "\r", "\n", "\x00", "  ", "'"], {"quick": 4, "thorough": 5},
    wraps=((b"", b""), (b"x ", b""), (b"(", b"")))
_dl("pwsh", ["shell:find_powershell_strings", "shell:get_powershell_command"],
    ["powershell", "pwsh", ".exe", " ", "-e", "/e", "-enc", "-encodedcommand", " -nop", "^", "\r\n", '"', "'", "'(", "')", ";",
     "QQBCAEMA", "AAAA", "QQ==", "=", "/c"], {"quick": 3, "thorough": 5})
_dl("xml", ["xml:find_xml_hex"],
    ["&#65;", "&#x41;", "&#X4a;", "&#xzz;", "&#x4g;", "&#256;", "&#0;", "&#00065;", "&#x4;", "&", ";", "&#255;"], {"quick": 5, "thorough": 7})
_dl("unescape", ["javascript:find_unescape"], ["unescape('", "%41", "%zz", "%", "%u0041", "+", "'", "\\", "')", "%e9", "%0", "%ud800", "%udc00", "%uD83D", "%ude00", "%u"], {"quick": 4, "thorough": 6})
_dl("utf16", ["codec:find_utf16"], ["a\x00", "\xe9\x00", "\x00\x00", "\x7f\x00", "\x1f\x00", "\xff\x00", "\x00\xd8", "\x09\x00", "a"],
    {"quick": 6, "thorough": 8})
_dl("b64hex", ["base64:find_atob", "base64:find_base64", "base64:find_Base64Decode", "base64:find_FromBase64String", "hex:find_hex",
               "hex:find_hex_space", "hex:find_hex_comma", "hex:find_FromHexString"],
    families.get("b64hex").tokens + [b"aHR0", b"cDov", b"QUJD", b"RA==", b"\r\n", b"<\x00  \x00", b"&#13;", b"61 ", b"62,", b"=", b"/"],
    {"quick": 3, "thorough": 4})
_dl("b64groups", ["base64:find_base64"],
    ["aHR0", "cDov", "L2V4", "YW1w", "bGUu", "Y29t", "QQ==", "QUI=", "\n", "\r\n", "&#xA;", "&#xA", "&#10;", "&#13;", "&#xD;", "<\x00  \x00", "////", "AAAA", "abcd"],
    {"quick": 4, "thorough": 5}, wraps=((b"aHR0cDovL2V4", b""),))
_dl("net", ["network:find_urls", "network:find_ips", "network:find_domains", "network:find_emails"],
    families.get("net").tokens, {"quick": 3, "thorough": 4})
_dl("url", ["network:find_urls", "network:normalize_path", "network:normalize_percent_encoding"],
    ["http://", "a.com", "1.2.3.4", "%41", "%2f", "%zz", "%5B", "[", "::1", "]", ":", "80", "@", "/", "..", ".", "?", "#", "%", "%4"],
    {"quick": 3, "thorough": 4}, wraps=((b"", b""), (b"http://a.com", b""), (b"('http://", b"')"), (b"see http://[::1", b"]/x ok"), (b"ftp://u:p@[fe80::1%25", b"]:21/")))
_dl("pctnest", ["network:find_urls", "network:normalize_percent_encoding"],
    ["%", "%4", "%25", "%33", "%34", "%3", "3", "4", "7", "1", "%2", "5"], {"quick": 4, "thorough": 5},
    wraps=((b"http://[fe80::1", b"]/x"), (b"http://a", b".com/"), (b"http://a.com/", b" "), (b"http://u", b"@a.com/"), (b"http://a.com:8", b"/"), (b"http://a.com/?", b"#f"),
           (b"http://1.2.3.", b"/x")))
_dl("winpath", ["path:find_windows_path", "path:find_path"], families.get("winpath").tokens, {"quick": 4, "thorough": 5})
_dl("strings", ["concat:find_concat", "reverse:find_reverse", "vba:find_strreverse", "vba:find_createobject", "replace:find_replace",
                "replace:find_vba_replace", "replace:find_powershell_replace", "replace:find_js_regex_replace"],
    families.get("concat").tokens + [b"createobject(", b"(", b"`", b"\\", b"/g"], {"quick": 3, "thorough": 4})

SL_DEPTH_FAMILIES = ["mix", "pwsh", "b64hex"]  # scanned at every depth limit (one token shorter)


def describe(tier):
    return {
        "rule": (
            "E1 seqx: for every family ALL token sequences of length <= L are enumerated breadth-first, canonicalised to the bytes they spell "
            "and evaluated. Scan-level (SL) families: Multidecoder(shipped decoders + fixture keywords).scan(data, 10), then flatten(), "
            "list(tree), string_summary(tree), json.loads(tree_to_json(tree)); families " + ",".join(SL_DEPTH_FAMILIES) + " additionally at every depth "
            f"limit {DEPTHS_ALL} with L-1. Decoder-level (DL) families call the named decoder/helper functions directly (deeper L). Structured "
            "generators: PE header fields x EVERY truncation length x 3 embedding offsets; chr/chrw/chrb of every number 0..99999 with 0-2 leading "
            "zeros; EVERY dotted quad over 16 octet spellings (decimal, zero-padded with and without the digits 8/9, octal / hex boundaries, junk) bare in text and as URL host; xor keys 0..999 in 4 spellings on base64/hex/byte-array forms; 501/502-element byte arrays with each malformed element in "
            "first/middle/last position; boundary ladder (2..1025 repetitions / 16 kB, thorough ..70000 / 64 kB: powers of two +-1 and round numbers) of repetitions of every family token and of leading zeros in every numeric spelling; full shipped registry (5316 keywords) on all <=2-token strings of the `mix` family and one witness per "
            "family. Oracle: nothing raises (any exception type), the 5 s no-progress watchdog does not fire (30 s for PE/byte-array cases), the result is a "
            "Node carrying the input. states = distinct byte strings evaluated, transitions = token extensions (evaluations), traces = scans/calls "
            "completed on the real code. Non-trivial = an input on which at least one decoder returned a hit (SL: tree has a child; DL: non-empty result)."
        ),
        "bounds": {
            "SL": {n: families.get(n).describe(tier) for n in families.STREAM_FAMILIES[tier]},
            "DL": {n: dict(f.describe(tier), targets=t) for n, (f, t) in DL.items()},
            "depth_limits": list(DEPTHS_ALL),
        },
        "assumptions": [
            "inputs longer than the bound and regex worst-case time on long inputs are out of reach of a bounded exhaustive check",
            "a hang inside C code (regex/pefile) cannot be interrupted by the Python-level watchdog; the pool then reports a harness error after 25 min",
            "SL families use the fixture keyword directory; the shipped keyword set is exercised by the 'full' units",
        ],
        "exhaustive": True,
    }


def plan(tier, seed):
    units = []
    for name in families.STREAM_FAMILIES[tier]:
        for u in families.get(name).units(tier):
            units.append(("sl", name, tier, u[2]))
    for name in SL_DEPTH_FAMILIES:
        for u in families.get(name).units(tier):
            units.append(("sld", name, tier, u[2]))
    for name, (fam, _) in DL.items():
        for u in fam.units(tier):
            units.append(("dl", name, tier, u[2]))
    for i in range(16):
        units.append(("chr", i, 16))
    for i in range(len(QUAD_OCTETS)):
        units.append(("quad", i))
    for form in range(len(XOR_FORMS)):
        units.append(("xor", form))
    for i in range(len(_pe_field_grid(tier))):
        units.append(("pe", tier, i))
    units.append(("bytes", tier))
    units += [("ladder", tier, name) for name in families.STREAM_FAMILIES["quick"] if not name.startswith("bytes") and name != "pairs"] + [("ladder-num", tier)]
    units += [("nest", tier, i) for i in range(len(NEST_PAIRS))] + [("midpoint", i, 4) for i in range(4)]
    units.append(("full", tier))
    units.append(("views",))
    units += core.interp_axis([("views",), ("xor", 0)] + [("sl", "ctx", tier, u[2]) for u in families.get("ctx").units(tier)])
    return units


# ---- oracles ---------------------------------------------------------------------------------------------

_MD = None
_MD_FULL = None


def md():
    global _MD
    if _MD is None:
        _MD = Multidecoder(streams.registry())
    return _MD


def md_full():
    global _MD_FULL
    if _MD_FULL is None:
        _MD_FULL = Multidecoder(build_registry())
    return _MD_FULL


class DeepTreeRecursionError(Exception):
    """A view ran out of stack on a tree that really is nested hundreds of levels deep (cause predicate of a known finding: any other
    RecursionError keeps its own signature)."""


def nesting(tree) -> int:
    deepest, stack = 0, [(tree, 0)]
    while stack:
        n, d = stack.pop()
        deepest = max(deepest, d)
        for c in n.children:
            stack.append((c, d + 1))
    return deepest


def _view(fn, tree):
    def run():
        try:
            return fn()
        except RecursionError:
            d = nesting(tree)
            if d >= 300:
                raise DeepTreeRecursionError(f"the view recurses once per nesting level and the tree is {d} levels deep") from None
            raise

    return run


def views(rec, tree, w, size):
    rec.guard("C01.view.flatten", w, size, _view(tree.flatten, tree))
    rec.guard("C01.view.iterate", w, size, _view(lambda: list(tree), tree))
    rec.guard("C01.view.summary", w, size, _view(lambda: string_summary(tree), tree))
    rec.guard("C01.view.json", w, size, _view(lambda: json.loads(tree_to_json(tree)), tree))


def scan_case(rec, scanner, data, depth, w, size, limit=5):
    rec.count("evaluations")
    rec.count("transitions")
    ok, tree = rec.guard("C01.scan", w, size, scanner.scan, data, depth, limit=limit)
    if not ok:
        return None
    rec.count("traces")
    if not isinstance(tree, Node) or tree.value != data:
        rec.violation("C01.returns-tree", "not-a-tree-of-the-input", w, f"scan returned {core.short(tree, 80)}", size)
        return None
    if tree.children:
        rec.mark("nontrivial", data)
        rec.mark("outcomes", trees.shape_flat(tree))
    views(rec, tree, w, size)
    return tree


def _resolve(target):
    mod, fn = target.split(":")
    m = importlib.import_module("multidecoder.decoders." + mod)
    return getattr(m, fn)


def run_unit(unit, rec):
    kind = unit[0]
    if kind in ("sl", "sld"):
        _, name, tier, first = unit
        fam = families.get(name)
        depths = (10,) if kind == "sl" else tuple(d for d in DEPTHS_ALL if d != 10)
        L = fam.L[tier] - (1 if kind == "sld" else 0)
        last = None
        for level, s, unique in fam.states(tier, first, L):
            if kind == "sl":
                rec.mark("states", s, unique)
            for pre, suf in fam.wraps:
                data = pre + s + suf
                for d in depths:
                    scan_case(rec, md(), data, d, {"kind": "scan", "registry": "fixture", "data": data, "depth": d}, len(data))
                last = data
        if last is not None:
            rec.sample({"family": name, "level": "scan", "data": last, "depths": list(depths)})
    elif kind == "dl":
        _, name, tier, first = unit
        fam, targets = DL[name]
        fns = [(t, _resolve(t)) for t in targets]
        last = None
        for level, s, unique in fam.states(tier, first):
            rec.mark("states", (name, s), unique)
            hit = False
            for pre, suf in fam.wraps:
                data = pre + s + suf
                for t, fn in fns:
                    rec.count("evaluations")
                    rec.count("transitions")
                    ok, res = rec.guard("C01.decoder", {"kind": "call", "target": t, "data": data}, len(data), fn, data)
                    if ok:
                        rec.count("traces")
                        if res:
                            hit = True
                last = data
            if hit:
                rec.mark("nontrivial", (name, s), unique)
        if last is not None:
            rec.sample({"family": name, "level": "decoder", "targets": targets, "data": last})
    elif kind == "quad":
        # every dotted quad over an octet menu (decimal, zero-padded with and without the digits 8/9, octal and hex boundaries, junk), bare in
        # text and as a URL host: the validator and the parser must never disagree in a way that lets an exception escape
        import itertools as _it
        first = QUAD_OCTETS[unit[1]]
        scanner = md()
        data = b""
        for rest in _it.product(QUAD_OCTETS, repeat=3):
            quad = b".".join((first,) + rest)
            for data in (b"ip " + quad + b" x", b"http://" + quad + b"/a"):
                rec.mark("states", data, True)
                scan_case(rec, scanner, data, 2, {"kind": "scan", "registry": "fixture", "data": data, "depth": 2}, len(data))
        rec.sample({"family": "quad", "first_octet": first, "last": data})
    elif kind == "chr":
        _, i, n = unit
        fn = _resolve("chr:find_chr")
        for num in range(i, 100000, n):
            for zeros in ("", "0", "00"):
                for name in (b"chr", b"ChrW", b"chrb"):
                    data = name + b"(" + zeros.encode() + str(num).encode() + b")"
                    rec.mark("states", data, True)
                    rec.count("evaluations")
                    rec.count("transitions")
                    ok, res = rec.guard("C01.decoder", {"kind": "call", "target": "chr:find_chr", "data": data}, len(data), fn, data)
                    if ok:
                        rec.count("traces")
                        if res:
                            rec.mark("nontrivial", data, True)
            if num % 997 == i:
                scan_case(rec, md(), b"x = " + data + b" & " + data, 10, {"kind": "scan", "registry": "fixture", "data": b"x = " + data + b" & " + data, "depth": 10}, 30)
        rec.sample({"family": "chr", "data": data})
    elif kind == "xor":
        form = XOR_FORMS[unit[1]]
        for key in range(0, 1000):
            for sp in (b" -bxor %d", b"-xor%d", b" -BXOR  %d", b" -bxor 0%d"):
                data = form + sp % key
                rec.mark("states", data, True)
                scan_case(rec, md(), data, 10, {"kind": "scan", "registry": "fixture", "data": data, "depth": 10}, len(data), limit=30)
        rec.sample({"family": "xor", "data": data[-60:]})
    elif kind == "pe":
        _, tier, i = unit
        run_pe(rec, _pe_field_grid(tier)[i], tier)
    elif kind == "bytes":
        run_bytes(rec, unit[1])
    elif kind == "ladder":
        run_ladder(rec, unit[1], unit[2])
    elif kind == "ladder-num":
        run_ladder_num(rec, unit[1])
    elif kind == "nest":
        run_nest(rec, unit[1], unit[2])
    elif kind == "midpoint":
        run_midpoint(rec, unit[1], unit[2])
    elif kind == "full":
        run_full(rec, unit[1])
    elif kind == "views":
        run_views(rec)


# ---- structured generators ---------------------------------------------------------------------------------

_ARR = b",".join(b"%d" % (65 + i % 26) for i in range(501))
XOR_FORMS = [
    b"[System.Convert]::FromBase64String('ZHVjaw==')",
    b"FromHexString('6475636b6475636b6475636b')",
    _ARR,
    b"$a = " + _ARR + b" ; $b",
]


def _pe_field_grid(tier):
    grid = []
    lf = [0, 0x3C, 0x40, 0x80, 0xFFFFFFFF] if tier == "thorough" else [0x40, 0x80, 0xFFFFFFFF]
    for lfanew in lf:
        for nsec in (0, 1, 2, 0xFFFF):
            for optsize in (0, 0xE0, 0xFFFF):
                grid.append((lfanew, nsec, optsize))
    return grid


PE_SECS = [(0, 0), (0x200, 0x200), (0x200, 0x100), (0x200, 0x10000), (0x400, 0x10), (0xFFFFFFFF, 0xFFFFFFFF), (0x200, 0xFFFFFFFF), (0x1F0, 0x211)]


def run_pe(rec, fields, tier):
    lfanew, nsec, optsize = fields
    fn = _resolve("pe_file:find_pe_files")
    step = 1 if tier == "thorough" else 1
    n = 0
    for ptr, size in PE_SECS:
        img = pegen.mkpe(nsec=nsec, ptr=ptr, size=size, total=0x400, optsize=optsize, lfanew=lfanew)
        cuts = list(range(0, min(len(img), 0x260) + 1, step)) + [len(img)]
        if tier == "quick":
            cuts = [c for c in cuts if c < 0x50 or c % 4 == 0 or c > len(img) - 8]
        for cut in cuts:
            body = img[:cut]
            for pre in (b"", b"x", b"1234567"):
                data = pre + body
                w = {"kind": "pe", "fields": [lfanew, nsec, optsize, ptr, size], "cut": cut, "pre": pre}
                rec.mark("states", data)
                rec.count("evaluations")
                rec.count("transitions")
                ok, res = rec.guard("C01.decoder", dict(w, target="pe_file:find_pe_files"), cut, fn, data, limit=30)
                if ok:
                    rec.count("traces")
                    if res:
                        rec.mark("nontrivial", data)
                if ok and (res or cut % 64 == 0):
                    scan_case(rec, md(), data, 10, w, cut, limit=30)
                n += 1
    rec.sample({"family": "pe", "fields(lfanew,nsec,optsize)": list(fields), "images": n})


def pe_data(w):
    lfanew, nsec, optsize, ptr, size = w["fields"]
    return w["pre"] + pegen.mkpe(nsec=nsec, ptr=ptr, size=size, total=0x400, optsize=optsize, lfanew=lfanew)[: w["cut"]]


QUAD_OCTETS = [b"0", b"1", b"9", b"08", b"09", b"008", b"010", b"089", b"0377", b"0400", b"255", b"256", b"0x1", b"0x", b"1e1", b"00"]
BYTE_ELEMS = [b"0", b"255", b"256", b"999", b"0x41", b"0xfg", b" 7", b"0X41", b"0x", b"00", b"1e1"]


def bytes_data(n, pos, elem, suffix):
    arr = [b"%d" % (48 + i % 10) for i in range(n)]
    arr[pos] = elem
    return b"$x = " + b",".join(arr) + suffix


def run_bytes(rec, tier):
    for n in (500, 501, 502):
        for pos in (0, n // 2, n - 1):
            for elem in BYTE_ELEMS:
                for suffix in (b"", b" -bxor 35", b" -bxor 300", b" -bxor", b" -bxor $k", b" -xor 0"):
                    data = bytes_data(n, pos, elem, suffix)
                    rec.mark("states", data)
                    scan_case(rec, md(), data, 10, {"kind": "bytes", "n": n, "pos": pos, "elem": elem, "suffix": suffix}, 1000 + len(elem) + len(suffix), limit=30)
    # key-guessing form (-bxor without a numeric key): ciphertexts whose per-offset byte frequencies tie, which multiplies candidate keys
    for klen in (1, 2, 3, 4, 5, 7):
        for kb in (1, 0x41):
            data = xorguess_data(klen, kb)
            rec.mark("states", data, True)
            scan_case(rec, md(), data, 10, {"kind": "xorguess", "klen": klen, "kb": kb}, 3000 + klen, limit=30)
    # arrays of pairwise distinct values (permutation tables: no byte repeats) of every size around plausible thresholds, key-guessing form
    for n in (2, 16, 64, 100, 128, 150, 151, 200, 255, 256):
        for suffix in (b" -bxor $k", b"; $x -bxor $S[$i]", b" -bxor", b""):
            for fmt in (b"%d", b"0x%02x"):
                data = b"$S = " + b",".join(fmt % ((i * 167 + 13) % 256) for i in range(n)) + suffix
                rec.mark("states", data, True)
                scan_case(rec, md(), data, 10, {"kind": "scan", "registry": "fixture", "data": data, "depth": 10}, 2000 + n, limit=30)
    rec.sample({"family": "byte-array", "n": n, "elem": elem, "suffix": suffix})


def run_ladder(rec, tier, name):
    """Every token of the family repeated n times for every n of the boundary ladder (one unbounded quantity at a time), alone and
    between the family's other tokens' first representative."""
    fam = families.get(name)
    hi, max_bytes = (1025, 16384) if tier == "quick" else (70000, 65536)  # several decoders are quadratic in such inputs (out of scope)
    last = b""
    import time

    for tok in fam.tokens:
        slow = False
        for n in core.ladder(2, hi):
            if len(tok) * n > max_bytes or slow:
                break
            for data in (tok * n, fam.tokens[0] + b" " + tok * n + b" " + fam.tokens[-1]):
                rec.mark("states", (name, data[:40], n), True)
                t0 = time.process_time()
                scan_case(rec, md(), data, 10, {"kind": "ladder", "family": name, "token": tok, "n": n, "wrapped": data[:1] != tok[:1] or len(data) != len(tok) * n},
                          100000 + n, limit=90)
                if time.process_time() - t0 > 4:
                    # a decoder whose time grows super-linearly in this repetition (regex backtracking): termination is what C01 claims, the
                    # cost is out of scope; the ladder stops climbing for this token instead of calling the next, 8x slower, step a hang
                    slow = True
                    rec.note(f"ladder stopped early (super-linear scan time, > 4 CPU-s at {len(data)} bytes): family {name}")
                last = data
    rec.sample({"family": name, "level": "ladder", "token": tok, "lengths": core.ladder(2, hi)[-5:], "last_len": len(last)})


# opener^n + closer^n: constructs that nest as undecoded contexts (contexts do not consume the depth limit, so the TREE gets n levels deep)
NEST_PAIRS = [(b"createobject(", b")"), (b"(cmd /c ", b")"), (b"CreateObject( ", b" )"), (b"x(", b")"), (b"'powershell -c \"", b"\"'"), (b"reverse(", b")"), (b"/a", b".b")]


def run_nest(rec, tier, i):
    op, cl = NEST_PAIRS[i]
    hi = 1025 if tier == "quick" else 5000
    last = 0
    for n in core.ladder(2, hi):
        for data in (op * n + cl * n, b"x " + op * n + b"a" + cl * n + b" y", op * n + cl * (n // 2)):
            rec.mark("states", ("nest", i, n, len(data)), True)
            scan_case(rec, md(), data, 10, {"kind": "nest", "pair": i, "n": n, "data_len": len(data), "form": data[:24]}, 300000 + n, limit=60)
            last = n
    rec.sample({"family": "nesting-ladder", "opener": op, "closer": cl, "levels": core.ladder(2, hi)[-5:], "last": last})


def run_midpoint(rec, part, nparts):
    """Results whose span is empty or the whole text: an unquoted powershell command that starts exactly at the middle of a text of 2*s bytes
    (the decoder's end = len - start then equals its start), for every s of the boundary ladder up to 100000 (values up to 100 kB), and commands
    at offset 0 / at the very end."""
    sizes = [s for s in core.ladder(16, 100000)]
    for s in sizes[part::nparts]:
        head = (b"echo a;" * (s // 7 + 1))[: s - 1] + b";"
        tail = (b"powershell -c ls " + b"x " * (s // 2 + 1))[:s]
        for data in (head + tail, tail, head + b"pwsh"):
            rec.mark("states", ("midpoint", s, len(data)), True)
            scan_case(rec, md(), data, 10, {"kind": "midpoint", "s": s, "len": len(data)}, 400000 + s, limit=90)
    rec.sample({"family": "midpoint", "half_sizes": sizes[-5:], "part": part})


def run_ladder_num(rec, tier):
    """Unbounded numeric spellings: leading zeros of chr() arguments, of array elements, of xor keys, of XML references, of ports."""
    for n in core.ladder(0, 10000):
        z = b"0" * n
        for data in (b"x=chr(" + z + b"65)&y", b"ChrW(" + z + b")", b"&#" + z + b"65;" * 1 + b"&#65;&#66;&#67;&#68;&#69;", b"FromBase64String('R1ZASA==') -bxor " + z + b"35",
                     b"http://a.com:" + z + b"80/x", b"1." + z + b"2.3.4 and " + z + b"1.2.3.4", b"$a = " + b",".join([z + b"65"] * 3 + [b"66"] * 500)):
            rec.mark("states", (data[:12], n), True)
            scan_case(rec, md(), data, 10, {"kind": "ladder-num", "n": n, "head": data[:12]}, 200000 + n, limit=60)
    rec.sample({"family": "numeric-ladder", "leading_zero_counts": core.ladder(0, 10000)[-6:]})


def xorguess_data(klen, kb):
    plain = (b"This program cannot be run in DOS mode. " * 16)[:600]
    key = bytes((kb + 7 * i) % 256 for i in range(klen))
    enc = bytes(b ^ key[i % klen] for i, b in enumerate(plain))
    return b"$e = " + b",".join(b"%d" % b for b in enc) + b"; $d = $e -bxor $key"


def run_full(rec, tier):
    fam = families.get("mix")
    toks = fam.tokens
    seen = set()
    inputs = [b""] + toks + [a + b for a in toks for b in toks]
    for name in families.names():
        f = families.get(name)
        inputs.append(b" ".join(f.tokens))
        inputs.append(b"".join(f.tokens))
    inputs += [bytes(range(256)), bytes(range(256)) * 2, b"\xff" * 64, b"MZ" + b"\0" * 100]
    last = b""
    for data in inputs:
        if data in seen:
            continue
        seen.add(data)
        rec.mark("states", ("full", data))
        for d in ((10,) if len(seen) > 40 else DEPTHS_ALL):
            scan_case(rec, md_full(), data, d, {"kind": "scan", "registry": "shipped", "data": data, "depth": d}, len(data) + 1, limit=30)
        last = data
    rec.sample({"family": "full-registry", "inputs": len(seen), "data": last[:80]})


def run_views(rec):
    """Views on trees the engine can produce but the small families do not reach: deep nesting chains."""
    import base64

    text = b"http://example.com/a.exe 8.8.4.4"
    for n in range(1, 11):
        text = base64.b64encode(text)
        scan_case(rec, md(), text, 10, {"kind": "scan", "registry": "fixture", "data": text, "depth": 10}, 5000 + n, limit=30)
        rec.mark("states", text)
    rec.sample({"family": "views", "note": "base64^n of a URL, n=1..10"})


def replay(w, rec):
    kind = w.get("kind")
    if kind == "scan":
        scanner = md_full() if w.get("registry") == "shipped" else md()
        scan_case(rec, scanner, w["data"], w["depth"], w, len(w["data"]), limit=30)
    elif kind == "call":
        fn = _resolve(w["target"])
        rec.count("evaluations")
        rec.guard("C01.decoder", w, len(w["data"]), fn, w["data"], limit=30)
    elif kind == "pe":
        data = pe_data(w)
        if "target" in w:
            rec.count("evaluations")
            rec.guard("C01.decoder", w, w["cut"], _resolve(w["target"]), data, limit=30)
        else:
            scan_case(rec, md(), data, 10, w, w["cut"], limit=30)
    elif kind == "bytes":
        data = bytes_data(w["n"], w["pos"], w["elem"], w["suffix"])
        scan_case(rec, md(), data, 10, w, 1000, limit=30)
    elif kind == "xorguess":
        scan_case(rec, md(), xorguess_data(w["klen"], w["kb"]), 10, w, 3000, limit=30)
    elif kind == "ladder":
        run_ladder(rec, "quick" if w["n"] <= 1025 else "thorough", w["family"])
    elif kind == "ladder-num":
        run_ladder_num(rec, "quick")
    elif kind == "nest":
        run_nest(rec, "quick" if w["n"] <= 1025 else "thorough", w["pair"])
    elif kind == "midpoint":
        for i in range(4):
            run_midpoint(rec, i, 4)
