"""C19  Flattening substitutes decoded values for their original spans and nothing else."""
from __future__ import annotations

import warnings

from multidecoder.query import squash_replace

from mdmc import core, trees
from mdmc.engines import streams, treex
from mdmc.refs import flatten_ref as fr

ID = "C19"
TITLE = "Flattening substitutes decoded values for their original spans and nothing else"

ALPHA = (b"a", b"b", b'"')
T3 = ("", "string", "x")
BOUNDS = {
    "quick": [
        dict(name="wide", minlen=0, maxlen=2, maxk=3, depth=0, gk=0, types=treex.TYPES, gtypes=()),
        dict(name="wide3", minlen=3, maxlen=3, maxk=2, depth=0, gk=0, types=treex.TYPES, gtypes=()),
        dict(name="nested", minlen=1, maxlen=2, maxk=2, depth=1, gk=1, types=T3, gtypes=("", "string")),
        dict(name="deep", minlen=1, maxlen=2, maxk=1, depth=2, gk=1, types=T3, gtypes=("", "string")),
    ],
    "thorough": [
        dict(name="wide", minlen=0, maxlen=3, maxk=3, depth=0, gk=0, types=treex.TYPES, gtypes=()),
        dict(name="wide4", minlen=4, maxlen=4, maxk=2, depth=0, gk=0, types=treex.TYPES, gtypes=()),
        dict(name="nested", minlen=1, maxlen=3, maxk=2, depth=1, gk=1, types=T3, gtypes=("", "string")),
        dict(name="nested2", minlen=1, maxlen=3, maxk=1, depth=1, gk=2, types=T3, gtypes=("", "string", "x")),
        dict(name="deep", minlen=1, maxlen=3, maxk=1, depth=2, gk=1, types=T3, gtypes=("", "string")),
    ],
}
STREAM_FAMS = ["mix", "concat", "net", "shell", "ctx", "pairs"]


def describe(tier):
    return {
        "rule": (
            f"E3 treex: EVERY tree of each block: root value over {[x.decode() for x in ALPHA]} with length in [minlen,maxlen], <= maxk children per node, "
            "`depth` further nesting levels with <= gk grandchildren under each non-empty child, child span = every in-bounds interval incl. empty ones in "
            "non-decreasing start order (so overlapping, nested and identical spans occur in every order), child type from `types`, child value in "
            "{covered text, empty, b'Z', covered text + b'Z'}. Oracles on every tree: flatten() == reference flatten written from the statement "
            "(selection first, right-to-left splice); identity clause (no node differs from the text it covers => output is the root value); "
            "squash_replace(value, children) == flatten() whenever no two substituted results overlap at any level; flatten() again after every single grandchild value change must give the reference result for the CHANGED tree. Linear chains of every depth 1..200 x 3 types. Additionally (incl. shallow scan -> flatten -> in-place expansion with scan_node -> flatten) root.flatten() of every "
            f"scan tree of the {STREAM_FAMS} scan-level families is compared with the reference applied to that tree. states = distinct trees, transitions = "
            "nodes flattened, traces = flatten calls compared. Non-trivial = tree in which at least one child is substituted and at least one is skipped or left alone."
        ),
        "bounds": [{k: (list(v) if isinstance(v, tuple) else v) for k, v in blk.items()} for blk in BOUNDS[tier]],
        "assumptions": ["every tree is flattened again after (a) its child objects were also handed to another Node, (b) each child (trees with <= 2 children) was re-typed across the 'ends in string' boundary after construction, (c) a grandchild's value changed",
                        "precondition of the statement: children in bounds and ordered by start (the generator produces only such trees; scan trees violating it are skipped and counted)"],
        "exhaustive": True,
    }


def plan(tier, seed):
    units = []
    for bi, blk in enumerate(BOUNDS[tier]):
        for rv in treex.root_values(ALPHA, blk["maxlen"]):
            if len(rv) < blk["minlen"]:
                continue
            if bi == 0:
                units.append(("tree", tier, bi, rv, None))
            for iv in treex.intervals(len(rv)):
                units.append(("tree", tier, bi, rv, iv))
    units += [("stream", u) for u in streams.plan(tier, fams=STREAM_FAMS)]
    units += [("chains", t) for t in ("", "vba.string", "x")]
    units += core.interp_axis([("chains", ""), ("chains", "vba.string")] + [("stream", u) for u in streams.plan(tier, fams=["ctx"])[:3]])
    return units


def in_precondition(value, children):
    last = 0
    for (_t, v, _o, s, e, g) in children:
        if not (0 <= s <= e <= len(value)) or s < last:
            return False
        last = s
        if not in_precondition(v, g):
            return False
    return True


def count_nodes(children):
    return sum(1 + count_nodes(c[5]) for c in children)


def check_tree(rec, value, kids, w, size, root=None):
    rec.count("evaluations")
    if root is None:
        root = treex.mk(("", value, "", 0, len(value), kids))
    ok, got = rec.guard("C19.total", w, size, root.flatten)
    if not ok:
        return
    rec.count("traces")
    rec.count("transitions", count_nodes(kids) + 1)
    exp = fr.ref_flatten(value, kids)
    if got != exp:
        quoted = any(c[0].endswith("string") for c in kids)
        overl = any(kids[i + 1][3] < kids[i][4] for i in range(len(kids) - 1))
        rec.violation("C19.flatten", f"flatten-differs|{'overlap' if overl else 'disjoint'}|{'string' if quoted else 'plain'}", w,
                      f"flatten() = {got!r}, statement gives {exp!r} for value {value!r} children {core.short(kids, 200)}", size)
    if fr.nothing_differs(value, kids) and got != value:
        rec.violation("C19.identity", "identity", w, f"no node differs from the text it covers but flatten() = {got!r} != {value!r}", size)
    if not fr.substituted_overlap(value, kids):
        with warnings.catch_warnings():
            warnings.simplefilter("ignore")
            ok, sq = rec.guard("C19.total", w, size, squash_replace, value, root.children)
        if ok and sq != got:
            rec.violation("C19.squash", "squash-differs-without-overlap", w, f"squash_replace = {sq!r} but flatten() = {got!r} although no substituted results overlap", size)
    # the same child objects placed under ANOTHER parent afterwards (the constructor re-targets their parent pointers): the first tree's
    # value and child lists are unchanged, so is its flattening
    if root.children:
        from multidecoder.node import Node as _Node
        _Node("alias", b"\x00" * (len(value) + 3), "", 0, 0, children=list(root.children))
        ok3, got3 = rec.guard("C19.total", w, size, root.flatten)
        for c in root.children:
            c.parent = root
        if ok3 and got3 != exp:
            rec.violation("C19.flatten.current-tree", "depends-on-parent-pointers", w,
                          f"after the same child objects were also given to another Node, flatten() = {got3!r} instead of {exp!r}", size)
    # a child is re-typed after construction (a caller relabels results; a decoder builds a Node and sets its type afterwards): the quoting
    # follows the type the child has when flatten() runs
    for ci, c in enumerate(root.children if len(kids) <= 2 else ()):
        old_t = c.type
        new_t = "x" if old_t.endswith("string") else "powershell.string"
        c.type = new_t
        ok4, got4 = rec.guard("C19.total", w, size, root.flatten)
        c.type = old_t
        if ok4:
            kids4 = [k if i != ci else (new_t,) + tuple(k[1:]) for i, k in enumerate(kids)]
            exp4 = fr.ref_flatten(value, kids4)
            if got4 != exp4:
                rec.violation("C19.flatten.current-tree", "type-assigned-after-construction", w,
                              f"after child #{ci} was re-typed {old_t!r} -> {new_t!r}, flatten() = {got4!r}, the statement gives {exp4!r}", size)
                break
    # flatten again after the tree changed below the root (a result must describe the tree as it is now)
    for ci, c in enumerate(root.children):
        for gi, g in enumerate(c.children):
            old = g.value
            g.value = old + b"!"
            ok2, got2 = rec.guard("C19.total", w, size, root.flatten)
            g.value = old
            if ok2:
                kids2 = [k if i != ci else (k[0], k[1], k[2], k[3], k[4], [gk if j != gi else (gk[0], gk[1] + b"!", gk[2], gk[3], gk[4], gk[5]) for j, gk in enumerate(k[5])])
                         for i, k in enumerate(kids)]
                exp2 = fr.ref_flatten(value, kids2)
                if got2 != exp2:
                    rec.violation("C19.flatten.current-tree", "stale-after-change-below", w,
                                  f"after changing a grandchild's value flatten() = {got2!r}, the statement gives {exp2!r} (first call gave {got!r})", size)
                    break
    n_sub = sum(1 for c in kids if fr.ref_flatten(c[1], c[5]) != value[c[3]:c[4]])
    if 0 < n_sub < len(kids):
        return True
    return False


def expand_and_reflatten(rec, case):
    """scan(data, 1).flatten(); then the same tree is expanded in place with scan_node(tree, 10) and flattened again."""
    from multidecoder.multidecoder import Multidecoder

    md = Multidecoder(streams.registry())
    w = dict(case.witness(), sequence="scan(depth 1), flatten, scan_node(tree, 10), flatten")
    ok, t = rec.guard("C19.total", w, case.size, md.scan, case.data, 1)
    if not ok or not t.children:
        return
    ok, _ = rec.guard("C19.total", w, case.size, t.flatten)
    ok2, _ = rec.guard("C19.total", w, case.size, md.scan_node, t, 10)
    if not (ok and ok2):
        return
    spec = fr.spec_of(t)
    if not in_precondition(case.data, spec[5]):
        return
    ok, got = rec.guard("C19.total", w, case.size, t.flatten)
    exp = fr.ref_flatten(case.data, spec[5])
    rec.count("traces")
    if ok and got != exp:
        rec.violation("C19.flatten.current-tree", "stale-after-expansion", w,
                      f"flatten() after expanding a shallow scan in place = {core.short(got, 120)}; the expanded tree flattens to {core.short(exp, 120)}", case.size)


def stream_monitor(rec, case):
    if case.family in ("mix", "ctx"):
        expand_and_reflatten(rec, case)
    spec = fr.spec_of(case.tree)
    kids = spec[5]
    if not in_precondition(case.data, kids):
        rec.note("scan tree outside the precondition (children out of bounds / unordered) - skipped")
        return
    nt = check_tree(rec, case.data, kids, case.witness(), case.size, root=case.tree)
    if nt:
        rec.mark("nontrivial", case.data)
    rec.mark("outcomes", trees.shape(case.tree))


def run_chains(rec, typ):
    """Linear chains of every depth 1..200 (deeper than any default scan): the leaf differs from its text, every level must substitute."""
    for depth in range(1, 201):
        spec = (typ, b"PLAIN", "", 1, 5, [])
        for d in range(depth):
            spec = (typ if d % 2 else "", b"(" + b"e032" + b")", "o", 1, 7, [spec]) if d < depth - 1 else ("", b"[(e032)]", "", 0, 8, [spec])
        value, kids = spec[1], spec[5]
        rec.mark("states", 0, True)
        if check_tree(rec, value, kids, {"kind": "chain", "depth": depth, "type": typ}, 1000 + depth) is not None:
            rec.mark("nontrivial", 0, True)
    rec.sample({"family": "chains", "depths": "1..200", "leaf_type": typ})


def run_unit(unit, rec):
    if unit[0] == "chains":
        run_chains(rec, unit[1])
        return
    if unit[0] == "stream":
        streams.run_unit(unit[1], rec, stream_monitor)
        return
    _, tier, bi, rv, first = unit
    b = BOUNDS[tier][bi]
    if first is None:
        rec.mark("states", (rv,), True)
        check_tree(rec, rv, [], {"kind": "tree", "value": rv, "children": []}, 0)
        return
    n = 0
    kids = []
    for kids in treex.child_lists(rv, b["depth"], b["maxk"], b["types"], b["gk"], b["gtypes"], first=first):
        n += 1
        rec.mark("states", 0, True)
        if check_tree(rec, rv, kids, {"kind": "tree", "value": rv, "children": kids}, len(rv) * 10 + count_nodes(kids)):
            rec.mark("nontrivial", 0, True)
    rec.sample({"block": b["name"], "root_value": rv, "first_child_interval": list(first), "trees": n, "last_children": kids})


def replay(w, rec):
    if w.get("kind") == "tree":
        def tospec(c):
            return (c[0], c[1], c[2], c[3], c[4], [tospec(g) for g in c[5]])
        kids = [tospec(c) for c in w["children"]]
        check_tree(rec, w["value"], kids, w, 0)
    elif w.get("kind") == "chain":
        run_chains(rec, w["type"])
    elif w.get("engine") == "stream":
        streams.replay(w, rec, stream_monitor)
