"""C13  Base64, hexadecimal and XOR decodings are bit-exact."""
from __future__ import annotations

import itertools

from multidecoder.decoders import base64 as mdb64
from multidecoder.decoders import hex as mdhex
from multidecoder.multidecoder import Multidecoder

from mdmc import core, trees
from mdmc.engines import streams
from mdmc.refs import codec_ref

ID = "C13"
TITLE = "Base64, hexadecimal and XOR decodings are bit-exact"
STREAM_FAMS = ["b64hex", "mix", "ctx", "pairs"]
B64ABC = codec_ref.B64


def b64enc(data: bytes) -> bytes:
    """Own RFC 4648 encoder (so that the generator does not lean on the module under test's dependencies)."""
    out = bytearray()
    for i in range(0, len(data), 3):
        chunk = data[i : i + 3]
        n = int.from_bytes(chunk + b"\0" * (3 - len(chunk)), "big")
        quad = [B64ABC[n >> 18 & 63], B64ABC[n >> 12 & 63], B64ABC[n >> 6 & 63], B64ABC[n & 63]]
        out += bytes(quad[: len(chunk) + 1]) + b"=" * (3 - len(chunk))
    return bytes(out)


def payload_classes(n):
    yield "zero", b"\0" * n
    yield "text", (b"Hello, World! visit the site 12345 " * 3)[:n]
    yield "ff", b"\xff" * n
    yield "ramp", bytes((37 * i + 11) % 256 for i in range(n))
    yield "slashy", (b"\xff\xff\xfc" * 20)[:n]


CALLS = [
    ("atob-dq", b'atob("', b'")', "javascript.string"), ("atob-sq", b"atob('", b"')", "javascript.string"),
    ("b64dec-sq", b"Base64Decode('", b"')", "vba.string"), ("b64dec-dq", b'base64decode("', b'")', "vba.string"),
    ("fromb64", b"FromBase64String('", b"')", "powershell.bytes"), ("fromb64-conv", b'[System.Convert]::FromBase64String("', b'")', "powershell.bytes"),
    ("fromb64-lower", b"[system.convert]::frombase64string('", b"')", "powershell.bytes"), ("atob-mixedq", b"atob('", b'")', "javascript.string"),
    ("b64dec-upper", b'BASE64DECODE("', b"')", "vba.string"),
]
EMBED = [(b"", b""), (b"x ", b" y"), (b"a=", b";b"), (b"\n", b"\n")]
BREAKS = [b"", b"\n", b"\r\n", b"&#10;", b"&#xA;", b"&#13;&#10;", b"&#xD;&#xA;", b"<\x00  \x00", b"&#13;\n"]


# other spellings of an escaped line break (zero padding, lower-case hex, missing semicolon, a tab): whether or not the library treats one as a
# separator, every node it reports must be the decoding of the text it covers
ODD_BREAKS = [b"&#010;", b"&#0010;", b"&#00010;", b"&#000010;", b"&#00013;&#00010;", b"&#x0A;", b"&#x0a;", b"&#xa;", b"&#x0000D;&#x0000A;", b"&#13", b"&#9;", b"&#xd;&#xa;"]


def describe(tier):
    return {
        "rule": (
            "Converse direction, exhaustive within the bound: payload length 0..%d x 5 byte classes + every single byte value at the first and last "
            "position of a 24-byte payload; bare base64 (encoded with an own encoder) x 4 embeddings at scan level, expected: exactly one "
            "encoding.base64 node covering exactly the blob with the payload as value whenever the documented acceptance rules hold (own predicate); "
            "base64 wrapped into 5..10000 lines (boundary ladder) of width 4 and 76 with 4 line-break spellings; long payloads (up to 3000 bytes) that start with a monotonous sled so that the characters which satisfy the rules appear only late; boundary blobs on both sides of every rule (20/24 characters, 6/7 distinct characters (4..8 alphabet symbols x no / one / two padding characters x 3 lengths), pure hex, pure letters, slash share 3/32 +- one "
            "character; EVERY base64-alphabet character at EVERY position of a hex-only, an upper-case hex-only and a letters-only 24-character text); 12 other spellings of an escaped line break (zero padding, lower-case hex, no semicolon) mixed with the documented ones in every gap (forward oracle); every assignment of %d line-break spellings to the %d gaps of a 7-group blob; 6 call forms x every payload length; hex runs of "
            "9/10/11/16 pairs x lower/upper/mixed x digit-only prefixes of 0..24 characters x embeddings; FromHexString call forms (plain, [System.Convert]:: prefix, lower case); PowerShell byte arrays of 499..640 elements x 5 element spellings (decimal, 0x hex, 0X HEX, zero-padded, mixed) x 4 separators x 3 embeddings. "
            "Forward direction: every node labelled encoding.base64 / decoded.hexadecimal / encoding.hexidecimal / cipher.xor* / cipher.multibyte_xor "
            "met in these runs, in xor runs (keys 0..999 x 4 spellings x 3 carriers; key-guessing form with repeating keys of length 1..4; the same form with 4095..70000 (thorough ..200003) decoded bytes x key lengths 1,2,3,5,7 given to find_powershell_bytes; xortool.dexor against text XOR repeating key for sizes 0..70000 (thorough ..262145) around 64 / 4096 / 65536 x key lengths 1..9) and in every "
            "scan of the b64hex/mix scan-level families is recomputed with own RFC 4648 / hex decoders from the text it replaced; an xor child must equal "
            "parent XOR key. states = distinct inputs, transitions = nodes recomputed, traces = scans/calls checked. Non-trivial = input on which a decoding node was expected or found."
            % (40 if tier == "quick" else 64, len(BREAKS), 6)
        ),
        "bounds": {"max_payload": 40 if tier == "quick" else 64, "break_spellings": len(BREAKS), "calls": [c[0] for c in CALLS]},
        "assumptions": ["neutral surroundings for a bare blob = separated by a space / punctuation outside [A-Za-z0-9+/=] (LF is not neutral: BASE64_RE spans line breaks)",
                        "trailing bits of a final base64 quantum are ignored (RFC 4648 'MAY')"],
        "exhaustive": True,
    }


# decoded sizes of the key-guessing xor form, around 4096 and 65536 (a key stream built per block must keep its phase across blocks)
XORBIG = {"quick": (4095, 4097, 65535, 65537, 70000), "thorough": (4095, 4096, 4097, 65535, 65536, 65537, 70000, 131071, 131075, 200003)}


def xorbig_data(n, klen):
    plain = (b"This program cannot be run in DOS mode. " * (n // 40 + 1))[:n]
    key = bytes([0x41 + i * 7 for i in range(klen)])
    enc = bytes(b ^ key[i % klen] for i, b in enumerate(plain))
    return b"$e = " + b",".join(b"%d" % b for b in enc) + b"; $d = $e -bxor $key"


def plan(tier, seed):
    maxlen = 40 if tier == "quick" else 64
    units = [("bare", tier, n) for n in range(0, maxlen + 1)]
    units += [("bytepos", v0) for v0 in range(0, 256, 16)]
    units += [("bounds",), ("late",)] + [("lines", i) for i in range(4)]
    units += [("breaks", i) for i in range(len(BREAKS))] + [("oddbreaks", i) for i in range(len(ODD_BREAKS))]
    units += [("calls", tier, ci) for ci in range(len(CALLS))]
    units += [("hex", case) for case in ("lower", "upper", "mixed")] + [("buffer",)]
    units += [("xor", c) for c in range(3)] + [("xorguess",)] + [("psbytes", i) for i in range(4)]
    units += [("xorbig", n, klen) for n in XORBIG[tier] for klen in (1, 2, 3, 5, 7)] + [("dexor", tier)]
    units += [("stream", u) for u in streams.plan(tier, fams=STREAM_FAMS)]
    units += core.interp_axis([("bounds",), ("late",), ("hex", "mixed"), ("xorguess",), ("psbytes", 0)])
    return units


_MD = None


def md():
    global _MD
    if _MD is None:
        _MD = Multidecoder(streams.registry())
    return _MD


def abs_nodes(tree):
    """(node, absolute start) for every node reachable through undecoded contexts from the root."""
    out = []

    def rec(n, base):
        for c in n.children:
            a = base + c.start
            out.append((c, a))
            if c.value.lower() == n.value[c.start : c.end].lower():
                rec(c, a)

    rec(tree, 0)
    return out


# ---- forward oracle on one node -----------------------------------------------------------------------------


def forward(rec, n, orig, w, size, searched=None):
    """n: node; orig: the text it replaced; searched: the whole text the decoder was given (the script that states the xor key)."""
    lab = n.obfuscation
    if lab == "encoding.base64":
        rec.count("transitions")
        payload = codec_ref.strip_breaks(orig) if n.type == "" else codec_ref.between_quotes(orig)
        exp = codec_ref.b64_decode(payload) if payload is not None else None
        if exp is None or n.value != exp:
            rec.violation("C13.base64.value", f"base64-value|{'bare' if n.type == '' else 'call'}", w,
                          f"base64 node over {core.short(orig, 80)} has value {core.short(n.value, 60)}; RFC 4648 gives {core.short(exp, 60)}", size)
    elif lab in ("decoded.hexadecimal", "encoding.hexidecimal"):
        rec.count("transitions")
        payload = orig if lab == "decoded.hexadecimal" else codec_ref.between_quotes(orig)
        exp = codec_ref.hex_decode(payload) if payload is not None else None
        if exp is None or n.value != exp:
            rec.violation("C13.hex.value", f"hex-value|{lab}", w,
                          f"hex node over {core.short(orig, 80)} has value {core.short(n.value, 60)}; its digits spell {core.short(exp, 60)}", size)
    for c in n.children:
        if c.obfuscation.startswith("cipher.xor") and c.obfuscation != "cipher.multibyte_xor":
            rec.count("transitions")
            try:
                key = int(c.obfuscation[len("cipher.xor"):])
            except ValueError:
                key = -1
            if not 0 <= key <= 255 or c.value != bytes(b ^ key for b in n.value):
                rec.violation("C13.xor.value", "xor-single-byte", w,
                              f"xor child labelled {c.obfuscation!r} is not parent XOR {key}: parent {core.short(n.value, 40)} child {core.short(c.value, 40)}", size)
            if searched is not None and 0 <= key <= 255 and codec_ref.stated_xor_key(searched) != key:
                rec.violation("C13.xor.value", "xor-key-not-the-stated-one", w,
                              f"xor child labelled {c.obfuscation!r} but the searched text states key {codec_ref.stated_xor_key(searched)!r}", size)
            if (c.start, c.end) != (0, len(n.value)) and (c.start, c.end) != (0, len(c.value)):
                rec.violation("C13.xor.span", "xor-span", w, f"xor child span ({c.start},{c.end}) does not cover the parent value (len {len(n.value)})", size)
        elif c.obfuscation == "cipher.multibyte_xor":
            rec.count("transitions")
            if codec_ref.xor_period(n.value, c.value) is None:
                rec.violation("C13.xor.value", "xor-multibyte", w,
                              f"multibyte xor child is not parent XOR a repeating key of length <= 65: parent {core.short(n.value, 40)} child {core.short(c.value, 40)}", size)


DEC_LABELS = ("encoding.base64", "decoded.hexadecimal", "encoding.hexidecimal")


def scan_and_check(rec, data, w, expect=None, forbid_label_at=None):
    """Scan, run the forward oracle on every decoding node, and (converse) require `expect` = (label, type, abs start, abs end, value)."""
    rec.count("evaluations")
    ok, res = rec.guard("C13.total", w, len(data), trees.iscan, streams.registry(), data, 10)
    if not ok:
        return None
    rec.count("traces")
    tree, log = res
    found = False
    for n in trees.walk(tree):
        h = log.hits.get(id(n))
        if h is None or n.obfuscation not in DEC_LABELS and not any(c.obfuscation.startswith("cipher.") for c in n.children):
            continue
        found = True
        forward(rec, n, h[3][h[4] : h[5]], w, len(data), searched=h[3])
    if expect is not None:
        label, typ, a, b, value = expect
        cands = [(n, s) for n, s in abs_nodes(tree) if n.obfuscation == label and s <= a and s + (n.end - n.start) >= b or (n.obfuscation == label and a <= s < b)]
        exact = [n for n, s in cands if s == a and s + (n.end - n.start) == b]
        rec.mark("nontrivial", data)
        if len(cands) != 1 or len(exact) != 1:
            got = [(n.type, n.obfuscation, s, s + n.end - n.start) for n, s in cands]
            cause = "not-found" if not cands else ("split" if len(cands) > 1 else "span")
            rec.violation("C13.converse", f"{label}|{cause}", w,
                          f"expected exactly one {label!r} node covering [{a},{b}) of {core.short(data, 80)}; found {got} ({cause})", len(data))
        else:
            n = exact[0]
            if n.value != value or n.type != typ:
                rec.violation("C13.converse.value", f"{label}|value-or-type", w,
                              f"{label!r} node at [{a},{b}) has type {n.type!r} value {core.short(n.value, 60)}, expected {typ!r} {core.short(value, 60)}", len(data))
    elif found:
        rec.mark("nontrivial", data)
    return tree


def run_unit(unit, rec):
    kind = unit[0]
    if kind == "bare":
        n = unit[2]
        for cname, payload in payload_classes(n):
            b64 = b64enc(payload)
            for pre, suf in EMBED:
                if pre == b"\n":
                    continue  # LF is not a neutral neighbour for bare base64
                data = pre + b64 + suf
                rec.mark("states", data)
                w = {"kind": "bare", "data": data, "blob": [len(pre), len(pre) + len(b64)], "payload": payload}
                exp = ("encoding.base64", "", len(pre), len(pre) + len(b64), payload) if codec_ref.b64_accepts(b64) else None
                scan_and_check(rec, data, w, exp)
        rec.sample({"family": "bare-base64", "payload_len": n, "last": data})
    elif kind == "bytepos":
        for v in range(unit[1], unit[1] + 16):
            for pos in (0, 23):
                p = bytearray(b"The quick brown fox jump")
                p[pos] = v
                b64 = b64enc(bytes(p))
                data = b"k " + b64 + b" z"
                rec.mark("states", data, True)
                exp = ("encoding.base64", "", 2, 2 + len(b64), bytes(p)) if codec_ref.b64_accepts(b64) else None
                scan_and_check(rec, data, {"kind": "bare", "data": data, "blob": [2, 2 + len(b64)], "payload": bytes(p)}, exp)
        rec.sample({"family": "byte-at-position", "last": data})
    elif kind == "bounds":
        blobs = []
        base = b"QUJDREVGR0hJSktMTU5PUFFSU1RVVldYWVo="  # 36 chars
        for L in (16, 20, 24, 28):
            blobs.append(b64enc(bytes(range(65, 65 + L * 3 // 4))))
        for distinct in (5, 6, 7, 8):
            abc = (b"A1b2C3d4")[:distinct]
            blobs.append((abc * 6)[:24])
        # the distinct-character rule crossed with the padding forms: k alphabet symbols + '=' / '==' (padding counts as a character of the text)
        for distinct in (4, 5, 6, 7, 8):
            abc = (b"QUJDR0hK")[:distinct]
            for pad in (b"", b"=", b"=="):
                for total in (24, 28, 44):
                    body = (abc * 8)[: total - len(pad)]
                    blobs.append(body + pad)
        blobs += [b"deadbeefdeadbeefdeadbeef", b"DEADBEEFDEADBEEFDEADBEE1", b"abcdefghijklmnopqrstuvwx", b"abcdefghijklmnopqrstuvw1", b"AbCdEfGhIjKlMnOpQrStUvWx"]
        for slashes in (2, 3, 4):
            blobs.append((b"/" * slashes + b"Qk1DREVGR0hJSktMTU5PUFFSU1RVVldY")[:32])
        for slashes in (5, 6, 7):
            blobs.append((b"/" * slashes + b"Qk1DREVGR0hJSktMTU5PUFFSU1RVVldYQk1DREVGR0hJSktMTU5PUFFSU1RVVldY")[:64])
        blobs += [base, base[:-1], base[:-2] + b"==", b"QUJD" * 5 + b"QQ==", b"QUJD" * 5 + b"QUI=", b"QUJD" * 5 + b"QU"]
        # one step away from the pure-hex and pure-letters exclusions: EVERY character of the base64 alphabet at EVERY position of a hex-only
        # and of a letters-only 24-character text (so: '+a1b2..', '0x4d5a..', 'a1b2..+', one digit inside letters, ...)
        for basis in (b"a1b2c3d4e5f60718293a4b5c", b"A1B2C3D4E5F60718293A4B5C", b"abcdefghijklmnopqrstuvwx"):
            for pos in range(len(basis)):
                for ch in B64ABC:
                    blobs.append(basis[:pos] + bytes([ch]) + basis[pos + 1:])
        blobs = list(dict.fromkeys(blobs))
        for b64 in blobs:
            for pre, suf in EMBED[:3]:
                data = pre + b64 + suf
                rec.mark("states", data)
                payload = codec_ref.b64_decode(b64)
                ok = codec_ref.b64_accepts(b64) and payload is not None
                exp = ("encoding.base64", "", len(pre), len(pre) + len(b64), payload) if ok else None
                scan_and_check(rec, data, {"kind": "bare", "data": data, "blob": [len(pre), len(pre) + len(b64)], "payload": payload or b""}, exp)
        rec.sample({"family": "acceptance-boundaries", "blobs": len(blobs)})
    elif kind == "lines":
        # wrapped base64: number of lines from the boundary ladder x line width x line-break spelling; one unit, exactly the blob
        eol = [b"\n", b"\r\n", b"&#13;&#10;", b"&#xD;&#xA;\r\n"][unit[1]]
        for width in (4, 76):
            for nlines in core.ladder(5, 5000 if width == 76 else 10000):
                per = width // 4 * 3
                payload = bytes((i * 131 + 7) % 251 for i in range(per * nlines - 1))
                b64 = b64enc(payload)
                if not codec_ref.b64_accepts(b64):
                    continue  # below the documented minimum (22 characters)
                lines = [b64[i : i + width] for i in range(0, len(b64), width)]
                blob = eol.join(lines)
                data = b"b64: " + blob + b" ."
                rec.mark("states", data[:64] + b"%d" % nlines, True)
                rec.count("evaluations")
                w = {"kind": "lines", "eol": eol, "width": width, "nlines": nlines}
                ok, hits = rec.guard("C13.total", w, nlines, mdb64.find_base64, data, limit=60)
                if not ok:
                    continue
                rec.count("traces")
                rec.count("transitions", len(hits))
                rec.mark("nontrivial", 0, True)
                got = [(h.start, h.end) for h in hits]
                if got != [(5, 5 + len(blob))] or hits[0].value != payload:
                    cause = "split" if len(got) > 1 else ("not-found" if not got else ("span" if got[0] != (5, 5 + len(blob)) else "value"))
                    rec.violation("C13.converse", f"encoding.base64|many-lines|{cause}", w,
                                  f"base64 wrapped into {len(lines)} lines of {width} characters (break {eol!r}) is not decoded as one unit over [5,{5 + len(blob)}): {core.short(got, 160)}", nlines)
        rec.sample({"family": "wrapped-lines", "eol": eol, "line_counts": core.ladder(5, 5000)[-6:]})
    elif kind == "late":
        # acceptance rules are properties of the WHOLE blob: long payloads whose first part is monotonous (sled / padding) and whose
        # distinguishing characters only appear late
        tail = b"The quick brown fox jumps over the lazy dog 0123456789 +/"
        for filler in (b"\x90", b"\x00", b"A", b"\xff"):
            for n in (21, 45, 93, 96, 99, 189, 192, 381, 768, 3000):
                for tl in (6, 12, 57):
                    payload = filler * n + tail[:tl]
                    b64 = b64enc(payload)
                    for pre, suf in EMBED[:2]:
                        data = pre + b64 + suf
                        rec.mark("states", data, True)
                        w = {"kind": "bare", "data": data, "blob": [len(pre), len(pre) + len(b64)], "payload": payload}
                        exp = ("encoding.base64", "", len(pre), len(pre) + len(b64), payload) if codec_ref.b64_accepts(b64) else None
                        scan_and_check(rec, data, w, exp)
        # hex: long runs, and the minimum run at the end of a long digit prefix
        for n in (10, 11, 64, 1000):
            body = bytes((i * 7 + 3) % 256 for i in range(n))
            for blob in (body.hex().encode(), body.hex().upper().encode()):
                data = b"h " + blob + b" ."
                rec.mark("states", data, True)
                scan_and_check(rec, data, {"kind": "hex", "data": data, "blob": [2, 2 + len(blob)], "case": "lower" if blob.islower() or blob.isdigit() else "upper", "digit_prefix": 0},
                               ("decoded.hexadecimal", "", 2, 2 + len(blob), body))
        rec.sample({"family": "late-distinguishing-characters", "fillers": 4, "lengths": [21, 45, 93, 96, 99, 189, 192, 381, 768, 3000]})
    elif kind == "breaks":
        groups = [b"VGhl", b"IHF1aWNrIGJy", b"b3du", b"IGZveCBq", b"dW1wcyBvdmVy", b"IHRoZSBsYXp5", b"IGRvZw=="]
        payload = b"The quick brown fox jumps over the lazy dog"
        first = BREAKS[unit[1]]
        for rest in itertools.product(BREAKS, repeat=5):
            seps = (first,) + rest
            blob = b"".join(g + s for g, s in zip(groups, seps + (b"",)))
            data = b"b: " + blob + b" ."
            rec.mark("states", data, True)
            rec.count("evaluations")
            w = {"kind": "breaks", "data": data, "blob": [3, 3 + len(blob)], "payload": payload}
            ok, hits = rec.guard("C13.total", w, len(data), mdb64.find_base64, data)
            if not ok:
                continue
            rec.count("traces")
            rec.mark("nontrivial", data, True)
            got = [(h.start, h.end, h.value, h.obfuscation, h.type) for h in hits]
            if got != [(3, 3 + len(blob), payload, "encoding.base64", "")]:
                cause = "split" if len(got) > 1 else ("not-found" if not got else ("span" if got[0][:2] != (3, 3 + len(blob)) else "value"))
                which = sorted({s for s in seps if s})
                rec.violation("C13.converse", f"encoding.base64|line-breaks|{cause}", w,
                              f"base64 broken by {which} is not decoded as one unit: {core.short(got, 200)} ({cause})", len(data))
            for h in hits:
                forward(rec, h, data[h.start : h.end], w, len(data))
        rec.sample({"family": "line-breaks", "first_gap": first, "last": data})
    elif kind == "oddbreaks":
        groups = [b"VGhl", b"IHF1aWNrIGJy", b"b3du", b"IGZveCBq", b"dW1wcyBvdmVy", b"IHRoZSBsYXp5", b"IGRvZw=="]
        first = ODD_BREAKS[unit[1]]
        n = 0
        for rest in itertools.product((b"\n", b"&#13;&#10;", first, b""), repeat=5):
            seps = (first,) + rest
            blob = b"".join(g + s for g, s in zip(groups, seps + (b"",)))
            for data in (b"b: " + blob + b" .", b"b: " + blob * 3 + b" ."):
                rec.mark("states", data, True)
                rec.count("evaluations")
                w = {"kind": "oddbreaks", "data": data}
                ok, hits = rec.guard("C13.total", w, len(data), mdb64.find_base64, data)
                if not ok:
                    continue
                rec.count("traces")
                n += 1
                if hits:
                    rec.mark("nontrivial", data, True)
                for h in hits:
                    forward(rec, h, data[h.start : h.end], w, len(data))
        rec.sample({"family": "odd-line-break-spellings", "first_gap": first, "cases": n})
    elif kind == "calls":
        name, pre_c, suf_c, typ = CALLS[unit[2]]
        maxlen = 40 if unit[1] == "quick" else 64
        for n in range(0, maxlen + 1):
            for cname, payload in payload_classes(n):
                b64 = b64enc(payload)
                for variant in (b64, b64.rstrip(b"=")):
                    expr = pre_c + variant + suf_c
                    for pre, suf in EMBED:
                        data = pre + expr + suf
                        rec.mark("states", data)
                        ok = n > 0 and (variant == b64)
                        exp = ("encoding.base64", typ, len(pre), len(pre) + len(expr), payload) if ok else None
                        scan_and_check(rec, data, {"kind": "call", "data": data, "blob": [len(pre), len(pre) + len(expr)], "payload": payload, "type": typ}, exp)
        rec.sample({"family": "call-" + name, "last": data})
    elif kind == "hex":
        case = unit[1]
        text = b"jk lmno:/zJKLMNO \x00\xff\x10\xab\xcd\xef--"
        for pairs in (9, 10, 11, 16, 21):
            for digits in range(0, 25):
                body = (text * 2)[:pairs]
                hx = body.hex().encode()
                pref = (b"1234567890" * 3)[:digits]
                if len(pref) % 2:
                    pref = pref[:-1]
                if case == "upper":
                    blob = pref + hx.upper()
                elif case == "lower":
                    blob = pref + hx
                else:
                    blob = pref + hx[:10] + hx[10:].upper()
                for pre, suf in EMBED[:3]:
                    data = pre + blob + suf
                    rec.mark("states", data)
                    npairs = len(blob) // 2
                    same_case = case != "mixed"
                    w = {"kind": "hex", "data": data, "blob": [len(pre), len(pre) + len(blob)], "case": case, "digit_prefix": len(pref)}
                    if same_case and npairs >= 10:
                        exp = ("decoded.hexadecimal", "", len(pre), len(pre) + len(blob), bytes.fromhex(blob.decode()))
                    else:
                        exp = None
                    scan_and_check(rec, data, w, exp)
                    if pairs >= 10 and same_case:
                        for head in (b"FromHexString('", b"[System.Convert]::FromHexString('", b"fromhexstring('"):
                            expr = head + blob + b"')"
                            d2 = pre + expr + suf
                            rec.mark("states", d2)
                            scan_and_check(rec, d2, {"kind": "hexcall", "data": d2, "blob": [len(pre), len(pre) + len(expr)], "head": len(head)},
                                           ("encoding.hexidecimal", "powershell.bytes", len(pre), len(pre) + len(expr), bytes.fromhex(blob.decode())))
        rec.sample({"family": "hex-" + case, "last": data})
    elif kind == "xor":
        carriers = [b"[System.Convert]::FromBase64String('R1ZASEdWQEg=')", b"FromHexString('4756404803444c4650035256424048')",
                    b"$b = " + b",".join(b"%d" % (65 + i % 26) for i in range(501))]
        c = carriers[unit[1]]
        for key in range(0, 1000):
            for sp in (b"\n-bxor %d", b" -xor%d", b" -BXOR\t%d", b";$x -bxor 0x%d"):
                data = c + sp % key
                rec.mark("states", data, True)
                scan_and_check(rec, data, {"kind": "xor", "data": data})
        rec.sample({"family": "xor-keys", "carrier": c[:40], "last": data[-30:]})
    elif kind == "buffer":
        # the caller scans block after block out of ONE reusable bytearray that it refills in place (stream.readinto): what a scan reports
        # is a function of the bytes in the buffer at that moment
        blocks = [b"$k = 1 -bxor 35 ; nothing to decode here", b"[System.Convert]::FromBase64String('R1ZASEdWQEg=') -bxor 77", b"FromHexString('4756404803444c4650035256424048')",
                  b"FromHexString('4756404803444c4650035256424048') -xor 9", b"x QUJDREVGR0hJSktMTU5PUFFSU1RVVldYWVo= y", b"no key, FromBase64String('R1ZASEdWQEg=')"]
        n = 0
        # reference trees first (bytes objects): no other buffer is searched between two scans of the reused one
        expected = {(bi, depth): trees.tup(Multidecoder(streams.registry()).scan(blocks[bi], depth)) for bi in range(len(blocks)) for depth in (10, 1)}
        for depth in (10, 1):
            for hist in itertools.product(range(len(blocks)), repeat=3):
                buf = bytearray()
                for bi in hist:
                    buf[:] = blocks[bi]
                    w = {"kind": "buffer", "history": list(hist), "depth": depth}
                    rec.count("evaluations")
                    rec.mark("states", ("buffer", hist, depth, n), True)
                    ok, res = rec.guard("C13.total", w, len(buf), trees.iscan, streams.registry(), buf, depth)
                    n += 1
                    if not ok:
                        continue
                    rec.count("traces")
                    tree, log = res
                    fresh = expected[(bi, depth)]
                    if trees.tup(tree) != fresh:
                        rec.violation("C13.converse", "reused-buffer-tree-differs", w,
                                      f"block {blocks[bi][:40]!r} scanned out of a reused bytearray (history {hist}, depth {depth}) gives {core.short(trees.tup(tree)[5], 200)}; "
                                      f"the same bytes scanned as bytes give {core.short(fresh[5], 200)}", len(buf))
                        break
                    for nd in trees.walk(tree):
                        h = log.hits.get(id(nd))
                        if h is not None and (nd.obfuscation in DEC_LABELS or any(c.obfuscation.startswith("cipher.") for c in nd.children)):
                            forward(rec, nd, bytes(h[3][h[4] : h[5]]), w, len(buf), searched=bytes(h[3]))
        rec.sample({"family": "reused-bytearray-buffer", "blocks": len(blocks), "histories": n})
    elif kind == "psbytes":
        fmts = [lambda v: b"%d" % v, lambda v: b"0x%02x" % v, lambda v: b"0X%02X" % v, lambda v: b"%03d" % v]
        seps = [b",", b", ", b",\n", b",  \t"]
        sep = seps[unit[1]]
        for n in (499, 500, 501, 502, 640):
            for style in range(5):
                vals = [(i * 37 + 11 + style) % 256 for i in range(n)]
                if style < 4:
                    elems = [fmts[style](v) for v in vals]
                else:
                    elems = [fmts[i % 4](v) for i, v in enumerate(vals)]
                blob = sep.join(elems)
                for pre, suf in ((b"", b""), (b"$a = ", b";"), (b"[byte[]](", b")")):
                    data = pre + blob + suf
                    rec.mark("states", data, True)
                    w = {"kind": "psbytes", "n": n, "style": style, "sep": sep, "pre": pre, "suf": suf}
                    rec.count("evaluations")
                    ok, res = rec.guard("C13.total", w, n, trees.iscan, streams.registry(), data, 10)
                    if not ok:
                        continue
                    rec.count("traces")
                    tree, log = res
                    found = [(nd, s0) for nd, s0 in trees.abs_nodes(tree) if nd.type == "powershell.bytes" and nd.obfuscation == ""]
                    rec.count("transitions", len(found))
                    if n >= 501:
                        rec.mark("nontrivial", data, True)
                        exact = [nd for nd, s0 in found if s0 == len(pre) and s0 + nd.end - nd.start == len(pre) + len(blob)]
                        if len(exact) != 1 or exact[0].value != bytes(vals):
                            got = [(s0, s0 + nd.end - nd.start, nd.value[:8]) for nd, s0 in found]
                            rec.violation("C13.psbytes", f"byte-array|{'not-found' if not exact else 'value'}", w,
                                          f"{n}-element byte array (element style {style}, separator {sep!r}) is not decoded to exactly its bytes over exactly its span: {core.short(got, 160)}", n)
                    else:
                        if found:
                            rec.note("byte array below the documented minimum was decoded")
        rec.sample({"family": "powershell-byte-arrays", "separator": sep, "sizes": [499, 500, 501, 502, 640]})
    elif kind == "xorguess":
        plain = (b"This program cannot be run in DOS mode. " * 16)[:600]
        for klen in (1, 2, 3, 4):
            for key in (bytes(range(1, klen + 1)), bytes([0x41 + i * 7 for i in range(klen)])):
                enc = bytes(b ^ key[i % klen] for i, b in enumerate(plain))
                data = b"$e = " + b",".join(b"%d" % b for b in enc) + b"; $d = $e -bxor $key"
                rec.mark("states", data, True)
                scan_and_check(rec, data, {"kind": "xor", "data": data})
        rec.sample({"family": "xor-key-guess", "last": data[-40:]})
    elif kind == "xorbig":
        _, n, klen = unit
        from multidecoder.decoders import powershell as mdps
        data = xorbig_data(n, klen)
        rec.mark("states", ("xorbig", n, klen), True)
        rec.count("evaluations")
        w = {"kind": "xorbig", "n": n, "klen": klen}
        ok, hits = rec.guard("C13.total", w, n, mdps.find_powershell_bytes, data, limit=120)
        if ok:
            rec.count("traces")
            big = [h for h in hits if len(h.value) == n]
            if big and any(c.obfuscation.startswith("cipher.") for c in big[0].children):
                rec.mark("nontrivial", 0, True)
            for h in hits:
                forward(rec, h, data[h.start:h.end], w, n, searched=data)
        rec.sample({"family": "xor-key-guess-large", "decoded_bytes": n, "key_length": klen})
    elif kind == "dexor":
        from multidecoder import xortool
        sizes = (0, 1, 2, 63, 64, 65, 4095, 4096, 4097, 65535, 65536, 65537, 70000) + ((131071, 131073, 262145) if unit[1] == "thorough" else ())
        for n in sizes:
            text = bytes((i * 37 + (i >> 8)) & 0xFF for i in range(n))
            for klen in range(1, 10):
                key = bytes([0x11 * k + 3 for k in range(klen)])
                rec.count("evaluations")
                rec.mark("states", ("dexor", n, klen), True)
                w = {"kind": "dexor", "n": n, "klen": klen, "tier": unit[1]}
                ok, got = rec.guard("C13.total", w, n, xortool.dexor, text, key)
                if ok:
                    rec.count("traces")
                    rec.count("transitions")
                    if n:
                        rec.mark("nontrivial", 0, True)
                    if got != bytes(b ^ key[i % klen] for i, b in enumerate(text)):
                        rec.violation("C13.xor.value", "dexor", w, f"dexor of {n} bytes with a key of length {klen} is not text XOR the repeating key", n)
        rec.sample({"family": "dexor", "sizes": list(sizes), "key_lengths": "1..9"})
    elif kind == "stream":
        streams.run_unit(unit[1], rec, stream_monitor, repeat=2)


def stream_monitor(rec, case):
    w = case.witness()
    for n in trees.walk(case.tree):
        h = case.log.hits.get(id(n))
        if h is None:
            continue
        if n.obfuscation in DEC_LABELS or any(c.obfuscation.startswith("cipher.") for c in n.children):
            rec.mark("nontrivial", case.data)
            forward(rec, n, h[3][h[4] : h[5]], w, case.size)


def replay(w, rec):
    k = w.get("kind")
    if k == "oddbreaks":
        ok, hits = rec.guard("C13.total", w, len(w["data"]), mdb64.find_base64, w["data"])
        for h in hits if ok else ():
            forward(rec, h, w["data"][h.start : h.end], w, len(w["data"]))
        return
    if k == "buffer":
        run_unit(("buffer",), rec)
        return
    if k == "xorbig":
        run_unit(("xorbig", w["n"], w["klen"]), rec)
        return
    if k == "dexor":
        run_unit(("dexor", w.get("tier", "quick")), rec)
        return
    if k == "psbytes":
        run_unit(("psbytes", [b",", b", ", b",\n", b",  \t"].index(w["sep"])), rec)
        return
    if k in ("bare", "call", "hex", "hexcall", "xor"):
        data = w["data"]
        exp = None
        if k == "bare":
            a, b = w["blob"]
            if codec_ref.b64_accepts(data[a:b]) and codec_ref.b64_decode(data[a:b]) is not None:
                exp = ("encoding.base64", "", a, b, w["payload"])
        elif k == "call":
            a, b = w["blob"]
            exp = ("encoding.base64", w["type"], a, b, w["payload"])
        elif k == "hex":
            a, b = w["blob"]
            if w["case"] != "mixed" and (b - a) >= 20:
                exp = ("decoded.hexadecimal", "", a, b, bytes.fromhex(data[a:b].decode()))
        elif k == "hexcall":
            a, b = w["blob"]
            exp = ("encoding.hexidecimal", "powershell.bytes", a, b, bytes.fromhex(data[a + w.get("head", 15) : b - 2].decode()))
        scan_and_check(rec, data, w, exp)
    elif k == "lines":
        run_unit(("lines", [b"\n", b"\r\n", b"&#13;&#10;", b"&#xD;&#xA;\r\n"].index(w["eol"])), rec)
    elif k == "breaks":
        data = w["data"]
        a, b = w["blob"]
        ok, hits = rec.guard("C13.total", w, len(data), mdb64.find_base64, data)
        if ok:
            got = [(h.start, h.end, h.value, h.obfuscation, h.type) for h in hits]
            if got != [(a, b, w["payload"], "encoding.base64", "")]:
                seps = sorted({s for s in BREAKS if s and s in data})
                cause = "split" if len(got) > 1 else ("not-found" if not got else ("span" if got[0][:2] != (a, b) else "value"))
                rec.violation("C13.converse", f"encoding.base64|line-breaks|{cause}", w, f"base64 broken by {seps} is not decoded as one unit: {core.short(got, 200)}", len(data))
    elif w.get("engine") == "stream":
        streams.replay(w, rec, stream_monitor)
