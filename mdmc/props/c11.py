"""C11  Plain indicators are found at any offset with exact span and canonical value."""
from __future__ import annotations

import itertools

from multidecoder.domains import TOP_LEVEL_DOMAINS
from multidecoder.multidecoder import Multidecoder

from mdmc import core, pegen, trees
from mdmc.engines import streams

ID = "C11"
FRESH_PROCESS_PER_UNIT = True
TITLE = "Plain indicators are found at any offset with exact span and canonical value"

OFFSETS = {"quick": list(range(0, 13)), "thorough": list(range(0, 13))}
DELIMS = [b" ", b"\t", b"\n"]
WORDS_PRE = [b"", b"lorem", b"zz qq", b"the quick"]
WORDS_SUF = [b"", b"ipsum", b"qq zz"]
# documented false-positive triggers: allowed to suppress an indicator only when they PRECEDE it
TRIGGERS = [b"version", b"Version=", b"sec.", b"section", b"<t>", b"<w:t>"]

OCT = [0, 1, 9, 10, 99, 100, 199, 200, 249, 250, 254, 255]  # boundary octets; the last octet excludes the documented .0 / .255 forms


B64_ALPHABET = b"ABCDEFGHIJKLMNOPQRSTUVWXYZabcdefghijklmnopqrstuvwxyz0123456789+/"


def instances():
    """(type(s), text, canonical value) -- one list per indicator grammar."""
    out = []
    for ip in (b"8.8.4.4", b"10.199.200.254", b"1.9.10.99", b"254.254.254.254", b"100.1.1.1"):
        out.append((("network.ip",), ip, ip))
    for d in (b"example.com", b"a-b.example.org", b"x1.y2.international", b"ab.cd.io0"[:8], b"sub.domain.example.co.uk"):
        out.append((("network.domain",), d, d))
    for scheme, host, tail in itertools.product((b"http", b"https", b"ftp", b"HTTP"), (b"example.com", b"8.8.4.4", b"[::1]", b"sub.example.org:8080"),
                                                (b"", b"/", b"/a/b", b"/a?x=1", b"/a#f", b"/a/b.c?x=1&y=2#frag")):
        u = scheme + b"://" + host + tail
        out.append((("network.url",), u, u))
    for e in (b"bob@example.org", b"a.b-c@x.example.com", b"user_1@a-b.co"):
        out.append((("network.email",), e, e))
    for p in (b"/usr/local/bin", b"../etc/passwd.txt", b"./abc/def.ghi", b"/abc/def/ghi/jkl.mno"):
        out.append((("path",), p, p))
    for p, t in ((b"C:\\Users\\Public\\file.txt", "windows.path"), (b"C:\\Windows\\System32\\calc.exe", "windows.path"), (b"\\\\server.example.com\\share\\file.txt", "windows.unc.path"),
                 (b"\\\\8.8.4.4\\share\\abc\\x.dll", "windows.unc.path"), (b"\\\\.\\C:\\abc\\def.txt", "windows.device.path"), (b"abc\\def\\ghi.txt", "windows.path")):
        out.append(((t,), p, p))
    for n in (b"evil.exe", b"EVIL.EXE", b"a_b1.exe"):
        out.append((("executable.filename",), n, n))
    for n in (b"evil.dll", b"kernel32.DLL"):
        out.append((("executable.filename", "executable.library.filename"), n, n))
    for inner in (b"", b"\"WScript.Shell\"", b"foo(1),(2)", b"a(b(c(d)))", b"(x)(y)"):
        c = b"CreateObject(" + inner + b")"
        out.append((("vba.function.createobject",), c, c))
    out.append((("vba.function.createobject",), b"createobject(x)", b"createobject(x)"))
    out.append((("vba.function.createobject",), b"CREATEOBJECT((a))", b"CREATEOBJECT((a))"))
    return out


def _pe_image(spec):
    if isinstance(spec, int):
        return pegen.valid_pe(spec)
    if spec.startswith("big:"):
        _, lf, ns = spec.split(":")
        return pegen.valid_pe_big(int(lf), int(ns))
    return pegen.valid_pe_variant(spec)


def describe(tier):
    return {
        "rule": (
            f"{len(instances())} indicator instances from the documented grammars (IPv4, domains, URLs scheme x host kind x path/query/fragment, e-mails, POSIX "
            "and Windows paths, .exe/.dll names, CreateObject calls with nested parentheses) x EVERY offset 0..12 x neutral delimiters {space, tab, LF} on both "
            f"sides x {len(WORDS_PRE)}x{len(WORDS_SUF)} neutral prefix/suffix words; every documented false-positive trigger {[t.decode() for t in TRIGGERS]} in prefix AND in suffix "
            "position (a trigger may suppress only when it precedes); the instance surrounded by copies of itself in other letter cases (upper, lower, capitalised labels, swapped, lower first label + capitalised rest, upper last label); additionally ALL IPv4 addresses with octets from "
            f"{OCT} (last octet without 0/255), EVERY entry of TOP_LEVEL_DOMAINS x 2 label shapes, CreateObject with unbalanced tails, and valid PE images with 1-3 sections, with a trailing raw-data-less section, with raw data stored in reverse table order, with DOS stubs of 128 B .. 8 kB and with 96 / 200 sections, at 4 offsets. "
            "Each input is scanned with the shipped decoders; oracle: a node of the documented type with the canonical value and exactly the instance's "
            "absolute span (sum of starts along undecoded contexts) exists; differential: across all embeddings of one instance the node's "
            "(type, value, label, length, sub-structure) is identical. states = distinct inputs, transitions = embeddings compared per instance, "
            "traces = scans checked. Non-trivial = every input (each contains an indicator that must be found)."
        ),
        "bounds": {"instances": len(instances()), "offsets": "0..12", "delimiters": 3, "tlds": len(TOP_LEVEL_DOMAINS)},
        "assumptions": ["neutral delimiters are space, tab, LF; neutral words are lower-case letters", ".dll names may be typed executable.filename or executable.library.filename",
                        "an IP directly preceded by a documented trigger may be dropped (documented heuristic)"],
        "exhaustive": True,
    }


def plan(tier, seed):
    units = [("inst", tier, i) for i in range(len(instances()))]
    units += [("allips", o) for o in OCT]
    units += [("tlds", i, 16) for i in range(16)]
    units += [("createobject",), ("pe",)]
    units += core.interp_axis([("createobject",), ("pe",)] + [("inst", tier, i) for i in range(0, len(instances()), 9)])
    return units


_MD = None


def md():
    global _MD
    if _MD is None:
        _MD = Multidecoder(streams.registry())
    return _MD


def find(tree, types, value, a, b):
    return [n for n, s in trees.abs_nodes(tree) if n.type in types and n.value == value and s == a and s + (n.end - n.start) == b]


def check(rec, data, a, b, types, value, w, sig_extra="", profile=None):
    if sig_extra:
        w = dict(w, sig_extra=sig_extra)  # the replay must arrive at the same signature
    rec.count("evaluations")
    rec.mark("states", data)
    ok, tree = rec.guard("C11.total", w, len(data), md().scan, data)
    if not ok:
        return None
    rec.count("traces")
    rec.mark("nontrivial", data)
    hits = find(tree, types, value, a, b)
    if not hits:
        near = [(n.type, n.value[:30], s, s + n.end - n.start) for n, s in trees.abs_nodes(tree) if n.type in types]
        cause = "not-reported" if not near else ("wrong-span" if any(x[1] == value[:30] for x in near) else "wrong-value")
        rec.violation("C11.found", f"{types[0]}|{cause}{sig_extra}", w,
                      f"{types[0]} {core.short(value, 50)} at [{a},{b}) of {core.short(data, 90)} not reported with exact span/value; same-type nodes: {core.short(near, 160)}", len(data))
        return None
    n = hits[0]
    prof = (n.type, n.value, n.obfuscation, n.end - n.start, trees.shape(n)[4])
    if profile is not None:
        rec.count("transitions")
        if profile and profile[0] != prof:
            rec.violation("C11.position-independent", f"{types[0]}|node-differs-between-embeddings", w,
                          f"{types[0]} {core.short(value, 40)}: node {core.short(prof, 160)} here, {core.short(profile[0], 160)} in another embedding", len(data))
        elif not profile:
            profile.append(prof)
    return n


def embeddings(tier):
    for off in OFFSETS[tier]:
        for d1, d2 in itertools.product(DELIMS, repeat=2):
            for pre in WORDS_PRE:
                for suf in WORDS_SUF:
                    yield off, d1, d2, pre, suf


def run_unit(unit, rec):
    kind = unit[0]
    if kind == "inst":
        types, text, value = instances()[unit[2]]
        profile = []
        n = 0
        # the same indicator spelled in another letter case earlier in the text (or in an earlier scan) is unrelated neighbouring text
        labels = text.split(b".")
        for variant in {text.upper(), text.lower(), b".".join(p[:1].upper() + p[1:].lower() for p in labels), text.swapcase(),
                        b".".join([labels[0].lower()] + [p[:1].upper() + p[1:].lower() for p in labels[1:]]),
                        b".".join([p.lower() for p in labels[:-1]] + [labels[-1].upper()])}:
            if variant == text:
                continue
            for d in (b" ", b"\n"):
                data = variant + d + text + d + variant
                a = len(variant + d)
                check(rec, data, a, a + len(text), types, value, {"kind": "inst", "data": data, "span": [a, a + len(text)], "types": list(types), "value": value},
                      sig_extra="|case-variant-neighbour", profile=None)
        for off, d1, d2, pre, suf in embeddings(unit[1]):
            head = b" " * off + pre + (d1 if (pre or off) else b"")
            data = head + text + (d2 + suf if suf else b"")
            a = len(head)
            w = {"kind": "inst", "data": data, "span": [a, a + len(text)], "types": list(types), "value": value}
            check(rec, data, a, a + len(text), types, value, w, profile=profile)
            n += 1
        # a decodable neighbour on the previous line whose pattern reaches across the line break into the first characters of the indicator
        # (unpadded base64 of every residue mod 4, so that blob + swallowed prefix is a multiple of 4): the two results then overlap partially
        for blob_len in range(22, 30):
            blob = (b"CzBVx9QmLr7TfK2hYwE8aZpNd3Gu")[:blob_len - 3] + b"jLH"
            for d in (b"\n", b"\r\n"):
                data = b"id: " + blob + d + text + d + b"end"
                a = len(b"id: " + blob + d)
                if all(c in B64_ALPHABET for c in text):
                    rec.note("reaching base64 neighbour skipped: the indicator consists of base64 characters only, the run legitimately swallows it whole")
                    continue
                check(rec, data, a, a + len(text), types, value, {"kind": "inst", "data": data, "span": [a, a + len(text)], "types": list(types), "value": value},
                      sig_extra="|base64-run-on-previous-line", profile=None)
        # false-positive triggers: must not matter in suffix position; in prefix position they may only remove the indicator
        for trig in TRIGGERS:
            for d in (b" ", b"\n"):
                data = text + d + trig
                check(rec, data, 0, len(text), types, value, {"kind": "inst", "data": data, "span": [0, len(text)], "types": list(types), "value": value},
                      sig_extra="|trigger-in-suffix", profile=profile)
                data = b"x " + text + d + trig + d + b"y"
                check(rec, data, 2, 2 + len(text), types, value, {"kind": "inst", "data": data, "span": [2, 2 + len(text)], "types": list(types), "value": value},
                      sig_extra="|trigger-in-suffix", profile=profile)
                if types[0] != "network.ip":
                    data = trig + d + text
                    a = len(trig + d)
                    check(rec, data, a, a + len(text), types, value, {"kind": "inst", "data": data, "span": [a, a + len(text)], "types": list(types), "value": value},
                          sig_extra="|trigger-in-prefix-of-non-ip", profile=profile)
        rec.sample({"instance": text, "types": list(types), "embeddings": n, "last": data})
    elif kind == "allips":
        o1 = unit[1]
        for o2, o3, o4 in itertools.product(OCT, OCT, [o for o in OCT if o not in (0, 255)]):
            ip = b"%d.%d.%d.%d" % (o1, o2, o3, o4)
            for pre, suf in ((b"", b""), (b"ip ", b" end"), (b"\tconnect\n", b"\n")):
                data = pre + ip + suf
                check(rec, data, len(pre), len(pre) + len(ip), ("network.ip",), ip, {"kind": "inst", "data": data, "span": [len(pre), len(pre) + len(ip)], "types": ["network.ip"], "value": ip})
        rec.sample({"family": "all-ipv4", "first_octet": o1, "last": data})
    elif kind == "tlds":
        tlds = sorted(TOP_LEVEL_DOMAINS)
        for ti in range(unit[1], len(tlds), unit[2]):
            tld = tlds[ti].lower()
            for lab in (b"qzqzq", b"ab-cd.ef0gh"):
                d = lab + b"." + tld
                if len(d) < 7:
                    continue
                for pre, suf in ((b"see ", b" now"), (b"", b""), (b"\n", b"\t")):
                    data = pre + d + suf
                    check(rec, data, len(pre), len(pre) + len(d), ("network.domain",), d,
                          {"kind": "inst", "data": data, "span": [len(pre), len(pre) + len(d)], "types": ["network.domain"], "value": d}, sig_extra="|tld-sweep")
        rec.sample({"family": "every-tld", "last": data})
    elif kind == "createobject":
        for depth in range(0, 4):
            for tail in (b"", b")", b" x)", b"(", b" (y"):
                inner = b"a" + b"(" * depth + b"b" + b")" * depth
                c = b"CreateObject(" + inner + b")"
                for pre in (b"", b"Set o = ", b"x\n"):
                    data = pre + c + tail
                    check(rec, data, len(pre), len(pre) + len(c), ("vba.function.createobject",), c,
                          {"kind": "inst", "data": data, "span": [len(pre), len(pre) + len(c)], "types": ["vba.function.createobject"], "value": c})
        rec.sample({"family": "createobject", "last": data})
    elif kind == "pe":
        for nsec in (1, 2, 3, "bss", "reversed", "big:128:2", "big:3840:2", "big:4096:2", "big:8192:1", "big:64:96", "big:64:200"):
            img = _pe_image(nsec)
            for pre in (b"", b"x", b"junk \x00\x01 ", b"MZ fake "):
                for suf in (b"", b" tail", b"\x00" * 7):
                    data = pre + img + suf
                    check(rec, data, len(pre), len(pre) + len(img), ("pe_file",), img,
                          {"kind": "pe", "nsec": nsec, "pre": pre, "suf": suf}, profile=None)
        # one header field at a time over its small values: e_lfanew at EVERY multiple of 4 from 4 (NT headers overlapping the DOS header, the
        # "tiny PE" layout) to 0x100, and the boundary ladder above; an image is in the statement's domain when the PE parser accepts it and sees
        # its section's raw data inside the image
        import pefile

        accepted = []
        for lf in list(range(4, 0x104, 4)) + [0x1FC, 0x200, 0x3FC, 0x400, 0xFFC, 0x1000, 0x1004]:
            img = pegen.pe_at(lf)
            try:
                parsed = pefile.PE(data=img)
                ok_pe = [(s_.PointerToRawData + s_.SizeOfRawData) for s_ in parsed.sections] == [len(img)] and parsed.DOS_HEADER.e_lfanew == lf
            except Exception:  # noqa: BLE001
                ok_pe = False
            if not ok_pe:
                rec.note("e_lfanew value for which the PE parser does not accept the generated image (outside the domain)")
                continue
            accepted.append(lf)
            for pre in (b"", b"x", b"junk \x00\x01 "):
                for suf in (b"", b" tail"):
                    data = pre + img + suf
                    check(rec, data, len(pre), len(pre) + len(img), ("pe_file",), img, {"kind": "pe-lfanew", "lfanew": lf, "pre": pre, "suf": suf}, sig_extra="|e_lfanew-sweep")
        if len(accepted) < 40:
            raise core.HarnessError(f"e_lfanew sweep: the PE parser accepted only {len(accepted)} generated images")
        # an image carried inside another image's section data (dropper), two images back to back, an image in another image's overlay:
        # every one of them is an embedded, structurally valid PE file and is reported with exactly its own span
        for inner_spec in (1, 2, "bss"):
            inner = _pe_image(inner_spec)
            for at in (0, 1, 0x10, 0x1FF, 0x200, 0x333):
                outer, off = pegen.pe_holding(inner, at)
                for pre in (b"", b"xy "):
                    data = pre + outer + b" end"
                    w = {"kind": "pe-nested", "inner": inner_spec, "at": at, "pre": pre}
                    check(rec, data, len(pre), len(pre) + len(outer), ("pe_file",), outer, dict(w, which="outer"))
                    check(rec, data, len(pre) + off, len(pre) + off + len(inner), ("pe_file",), inner, dict(w, which="inner"), sig_extra="|inside-another-image")
            other = _pe_image(2)
            for gap in (b"", b"\x00", b" -- "):
                data = b"a " + inner + gap + other + b" z"
                w = {"kind": "pe-pair", "inner": inner_spec, "gap": gap}
                check(rec, data, 2, 2 + len(inner), ("pe_file",), inner, dict(w, which="first"))
                check(rec, data, 2 + len(inner) + len(gap), 2 + len(inner) + len(gap) + len(other), ("pe_file",), other, dict(w, which="second"), sig_extra="|after-another-image")
        rec.sample({"family": "pe", "sections": "1..3", "nested": "image inside another image's section at 6 offsets; images back to back"})


def replay(w, rec):
    if w.get("kind") == "inst":
        a, b = w["span"]
        check(rec, w["data"], a, b, tuple(w["types"]), w["value"], w, sig_extra=w.get("sig_extra", ""))
    elif w.get("kind") in ("pe-nested", "pe-pair", "pe-lfanew"):
        run_unit(("pe",), rec)
    elif w.get("kind") == "pe":
        img = _pe_image(w["nsec"])
        data = w["pre"] + img + w["suf"]
        check(rec, data, len(w["pre"]), len(w["pre"]) + len(img), ("pe_file",), img, w)
