"""C06  The scan engine conforms to the interval-nesting model for any registry.

Explicit-state exploration (engine E2 `hitx`): every hit configuration within the bound is run on the real engine and
on the reference machine; the two trees must be equal node for node (type, value, label, span, children) and every
parent pointer of the implementation tree must name the node that lists it.
"""
from __future__ import annotations

from multidecoder.multidecoder import Multidecoder

from mdmc import core, families, trees
from mdmc.engines import hitx, streams
from mdmc.refs.engine_model import R, Trace, ref_scan

ID = "C06"
TITLE = "The scan engine conforms to the interval-nesting model for any registry"

BOUNDS = {
    "quick": dict(
        full=[dict(N=4, K=2, depths=(1, 2, 3), modes=("r0", "rp"), grouped=(False,), hi=True, kinds=hitx.KINDS_HI),
              dict(N=4, K=2, depths=(-1, 0, 1, 2, 3), modes=hitx.MODES, grouped=(False, True)),
              dict(N=4, K=3, depths=(1, 2), modes=("r0",), grouped=(False,)),
              dict(N=4, K=3, depths=(1, 2), modes=("r0", "rp"), grouped=(False,), kinds=hitx.KINDS_LBL),
              dict(N=4, K=2, depths=(1, 2), modes=("r0", "rp", "rk"), grouped=hitx.HOWS),
              dict(N=4, K=3, depths=(1, 2, 3), modes=("rs",), grouped=(False,), kinds=hitx.KINDS_RS),
              dict(N=4, K=3, depths=(1, 2), modes=("r0",), grouped=("shared", "bound"), kinds=("p", "q", "d1", "k"))],
        ties=[],
        streams="quick",
    ),
    "thorough": dict(
        full=[dict(N=5, K=3, depths=(1, 2, 3), modes=("r0", "rp"), grouped=(False,), hi=True, kinds=hitx.KINDS_HI),
              dict(N=5, K=2, depths=(-1, 0, 1, 2, 3, 4), modes=hitx.MODES, grouped=(False, True)),
              dict(N=4, K=3, depths=(1, 2, 3), modes=hitx.MODES, grouped=(False, True)),
              dict(N=5, K=3, depths=(1, 2, 3), modes=("r0", "rd"), grouped=(False,)),
              dict(N=5, K=3, depths=(1, 2), modes=("r0", "rp"), grouped=(False,), kinds=hitx.KINDS_LBL),
              dict(N=4, K=3, depths=(1, 2), modes=("r0", "rp", "rk"), grouped=hitx.HOWS),
              dict(N=4, K=3, depths=(1, 2, 3), modes=("rs",), grouped=(False,), kinds=hitx.KINDS_RS),
              dict(N=4, K=4, depths=(1, 2), modes=("r0",), grouped=("shared", "bound"), kinds=("p", "q", "d1", "k"))],
        ties=[dict(N=4, K=4, depths=(1, 2), modes=("r0",), grouped=(False,))],
        streams="thorough",
    ),
}


def describe(tier):
    b = BOUNDS[tier]
    return {
        "rule": (
            __import__("mdmc.props._engineprop", fromlist=["RULE_STRETCH"]).RULE_STRETCH +
            "configuration = text of N distinct bytes x ordered list (registry order) of <=K hits, each hit = interval x kind "
            f"{hitx.KINDS} x depth budget x recursion mode {hitx.MODES} x grouping (one decoder per hit / one decoder for all); "
            "ALL such configurations are enumerated (BFS by number of hits, partitioned by first hit) and each is executed on the "
            "real Multidecoder(registry).scan and on the reference machine; states = distinct reference-machine states "
            "(open-context chain, decoded-region end, text length) reached, transitions = hits processed by the machine, "
            "traces = executions whose implementation tree was compared with the model tree. Non-trivial = a configuration in "
            "which at least one context was opened AND at least one hit was dropped or decoded (the engine had to do more than "
            "append). 'ties' blocks enumerate only lists already in engine sort order plus all relative orders of equal spans. "
            "every configuration of <= 2 hits is also run through the second public entry point scan_node(Node('', T)) (zero root span). every configuration of <= 2 hits (N=4) is executed again in child interpreters started with -O and -OO. 'streams' = the hit streams the shipped decoders produce on every input of the scan-level token families "
            "(mdmc/families.py), replayed through the same reference machine."
        ),
        "bounds": {k: v for k, v in b.items()},
        "assumptions": [
            "synthetic decoders are pure functions of the searched value and return fresh Node objects",
            "hits are in bounds and have non-empty span (precondition of C06); streams violating it are counted and skipped",
            "CPython sorted() is stable",
        ],
        "exhaustive": True,
    }


def plan(tier, seed):
    b = BOUNDS[tier]
    units = [("special", "empty-registry"), ("special", "no-hits"), ("optimize", "-O"), ("optimize", "-OO")]
    for blk_kind in ("full", "ties"):
        for bi, blk in enumerate(b[blk_kind]):
            for ci in range(len(hitx.candidates(blk["N"], blk.get("kinds", hitx.KINDS)))):
                units.append((blk_kind, tier, bi, ci))
    for u in streams.plan(b["streams"]):
        units.append(("stream", u))
    from mdmc.props import _engineprop as ep
    for si, blk in enumerate(ep.STRETCH[tier]):
        for ci in range(len(hitx.candidates(ep.STRETCH_N, blk["kinds"]))):
            units.append(("stretch", tier, si, ci))
    return units


# ---- comparison -------------------------------------------------------------------------------------


def diff(a, b, path=()):
    """First difference between two tree tuples: (path, category)."""
    for i, name in enumerate(("type", "value", "obf", "start", "end")):
        if a[i] != b[i]:
            return path, "field-" + name
    ca, cb = a[5], b[5]
    for i in range(min(len(ca), len(cb))):
        d = diff(ca[i], cb[i], path + (i,))
        if d:
            return d
    if len(ca) > len(cb):
        return path + (len(cb),), "extra-in-impl"
    if len(cb) > len(ca):
        return path + (len(ca),), "missing-in-impl"
    return None


def parents_ok(root):
    if root.parent is not None:
        return False
    for n in [root] + trees.walk(root):
        for c in n.children:
            if c.parent is not n:
                return False
    return True


def _plain(k):
    return k in ("p", "q", "u")


def cause(T, hits):
    """Named cause predicates over a synthetic configuration (used in signatures, so that different defects stay apart)."""
    out = []
    for (a, b, k) in hits:
        if k in ("p", "q", "u") and a > 0:
            for (c, d, k2) in hits:
                if k2 not in ("p", "q", "u") and a <= c and d <= b:
                    out.append("decoded-under-shifted-context")
    return sorted(set(out)) or ["other"]


def check_run(rec, run: hitx.Run, size, w=None, counted=False):
    if not counted:
        rec.count("traces")
        rec.count("transitions", run.trace.transitions)
        for s in run.trace.states:
            rec.mark("states", s)
    it, mt = trees.tup(run.impl), run.model.tup()
    rec.mark("outcomes", mt)
    opened = any(len(s[0]) > 0 for s in run.trace.states)
    if opened and (run.trace.dropped or any(h[2] not in ("p", "q", "u") for h in run.hits)):
        rec.mark("nontrivial", (run.T, run.hits, run.depth, run.mode, run.grouped))
    d = diff(it, mt)
    if d:
        path, cat = d
        c = ",".join(cause(run.T, run.hits))
        rec.violation("C06.tree-equals-model", f"{cat}|{c}", w or run.describe(),
                      f"implementation tree differs from the interval-nesting model at child path {list(path)}: {cat}; "
                      f"impl={core.short(it, 200)} model={core.short(mt, 200)}", size)
    elif not parents_ok(run.impl):
        rec.violation("C06.parent-links", "reparented", w or run.describe(),
                      "a node's parent pointer does not name the node whose child list holds it", size)


def check_entry_point(rec, T, hits, depth, mode, grouped, model_tup, size):
    """The same configuration through the other public entry point: scan_node on a node prepared the short way, Node("", T)
    (start = end = 0).  Only the root's own span differs; its children must be the model's."""
    from multidecoder.node import Node

    _, ireg = hitx.registries(T, hits, mode, grouped)
    w = {"engine": "hitx", "T": T, "hits": [list(h) for h in hits], "depth": depth, "mode": mode, "grouped": grouped, "entry": "scan_node"}
    ok, tree = rec.guard("C06.total", w, size, lambda: Multidecoder(ireg).scan_node(Node("", T), depth))
    if ok:
        rec.count("traces")
        got = trees.tup(tree)[5]
        if got != model_tup[5]:
            d = diff(("", T, "", 0, 0, got), ("", T, "", 0, 0, model_tup[5]))
            rec.violation("C06.tree-equals-model", f"scan_node-entry|{d[1] if d else '?'}", w,
                          f"scan_node(Node('', T), {depth}) builds children {core.short(got, 200)}; the model (and scan()) give {core.short(model_tup[5], 200)}", size)


def run_config(rec, T, hits, depth, mode, grouped):
    size = len(hits) * 100 + max(depth, 0) * 10 + hitx.ALL_MODES.index(mode) + (5 if grouped else 0)
    w = {"engine": "hitx", "T": T, "hits": [list(h) for h in hits], "depth": depth, "mode": mode, "grouped": grouped}
    rec.count("evaluations")
    ok, run = rec.guard("C06.total", w, size, hitx.execute, T, hits, depth, mode, grouped)
    if ok:
        check_run(rec, run, size)
        if len(hits) <= 2 and not grouped:
            check_entry_point(rec, T, hits, depth, mode, grouped, run.model.tup(), size)
        return run
    return None


OPT_CHILD = r"""
import sys, hashlib
sys.path.insert(0, sys.argv[1]); sys.path.insert(1, sys.argv[2])
from mdmc.engines import hitx
from mdmc import trees
T = hitx.text(4)
cands = hitx.candidates(4)
out = []
for first in cands:
    for hits in hitx.configs_from(first, 4, 2):
        for depth in (1, 2):
            for mode in ("r0", "rp"):
                r = hitx.execute(T, hits, depth, mode, False)
                out.append(hashlib.sha1(repr(trees.tup(r.impl)).encode()).hexdigest()[:12])
print(" ".join(out))
"""


def run_optimize(rec, flag):
    """Every configuration of <= 2 hits (N=4, depths 1-2, modes r0/rp) in a child interpreter started with -O / -OO: same trees as here."""
    import hashlib
    import subprocess
    import sys

    r = subprocess.run([sys.executable, flag, "-c", OPT_CHILD, core.REPO_SRC, core.VERIF], capture_output=True, text=True, timeout=600)
    w0 = {"engine": "optimize", "flag": flag}
    if r.returncode != 0:
        rec.violation("C06.total", f"child-failed|{flag}", w0, f"python {flag} child failed: {core.short(r.stderr, 300)}", 1)
        return
    got = r.stdout.split()
    T = hitx.text(4)
    i = 0
    for first in hitx.candidates(4):
        for hits in hitx.configs_from(first, 4, 2):
            for depth in (1, 2):
                for mode in ("r0", "rp"):
                    rec.count("evaluations")
                    rec.count("traces")
                    run = hitx.execute(T, hits, depth, mode, False)
                    mt = run.model.tup()
                    rec.count("transitions", run.trace.transitions)
                    if i >= len(got) or got[i] != hashlib.sha1(repr(mt).encode()).hexdigest()[:12]:
                        rec.violation("C06.tree-equals-model", f"differs-under-{flag}", {"engine": "optimize", "flag": flag, "T": T, "hits": [list(h) for h in hits], "depth": depth, "mode": mode},
                                      f"in an interpreter started with {flag} the engine's tree for this configuration is not the model's ({core.short(mt, 160)})", len(hits) * 100 + depth)
                    i += 1
    rec.mark("states", ("optimize", flag))
    rec.mark("nontrivial", ("optimize", flag))
    rec.sample({"engine": "optimize", "flag": flag, "configurations": i})


def run_unit(unit, rec):
    kind = unit[0]
    if kind == "stretch":
        from mdmc.props import _engineprop as ep
        ep.run_unit(unit, rec, {}, "C06.total", lambda rec, run, w, size: check_run(rec, run, size, w, counted=True), None)
        return
    if kind == "optimize":
        run_optimize(rec, unit[1])
        return
    if kind == "special":
        special(unit[1], rec)
    elif kind in ("full", "ties"):
        _, tier, bi, ci = unit
        blk = BOUNDS[tier][kind][bi]
        kinds = blk.get("kinds", hitx.KINDS)
        T = hitx.text_for(blk["N"], blk.get("hi", False))
        first = hitx.candidates(blk["N"], kinds)[ci]
        for hits in hitx.configs_from(first, blk["N"], blk["K"], kinds=kinds, tie_perms_only=(kind == "ties")):
            for depth in blk["depths"]:
                for mode in blk["modes"]:
                    for grouped in blk["grouped"]:
                        if grouped in (True, "shared", "bound") and len(hits) < 2:
                            continue
                        run_config(rec, T, hits, depth, mode, grouped)
        rec.sample({"unit": list(unit), "last_configuration": [list(h) for h in hits], "text": T})
    elif kind == "stream":
        streams.run_unit(unit[1], rec, stream_monitor)


# ---- special axes -----------------------------------------------------------------------------------

EMPTY_PROBES = [b"http://example.com/a.exe 8.8.4.4 bob@example.org", b"", b"strlen", b'"a" + "b"']


def special(which, rec):
    if which == "empty-registry":
        # an empty registry is a registry: the reference machine finds nothing, the result is the bare root
        for data in EMPTY_PROBES:
            for k in (1, 10):
                w = {"engine": "empty-registry", "data": data, "depth": k}
                rec.count("evaluations")
                ok, tree = rec.guard("C06.total", w, 1, lambda: Multidecoder([]).scan(data, k))
                if not ok:
                    continue
                rec.count("traces")
                rec.mark("states", ("empty", len(data)))
                rec.count("transitions")
                exp = ("", data, "", 0, len(data), ())
                if trees.tup(tree) != exp:
                    rec.violation("C06.tree-equals-model", "empty-registry-not-empty", w,
                                  f"Multidecoder([]) did not behave as the empty registry: {len(trees.walk(tree))} nodes found", 1)
    elif which == "no-hits":
        for n in (0, 1, 4):
            T = hitx.text(n)
            for k in (-1, 0, 1, 3):
                run_config(rec, T, (), k, "r0", False)


# ---- shipped decoder streams -------------------------------------------------------------------------


def stream_monitor(rec, case):
    """case: streams.Case (data, depth, impl tree, log, registry of real decoders)."""
    tr = Trace()
    try:
        model = ref_scan(R("", case.data, "", 0, len(case.data)), case.depth, case.model_registry(), tr)
    except streams.OutOfPrecondition:
        rec.note("streams-outside-precondition")
        return
    except Exception:  # noqa: BLE001 - a shipped decoder raised while the model searched (totality is C01's business)
        rec.note("model-side decoder raised (reported by C01)")
        return
    rec.count("traces")
    rec.count("transitions", tr.transitions)
    for s in tr.states:
        rec.mark("model_states", ("s",) + s[:2])
    it, mt = trees.tup(case.tree), model.tup()
    rec.mark("outcomes", trees.shape(case.tree))
    if any(len(s[0]) > 0 for s in tr.states) and tr.dropped:
        rec.mark("nontrivial", case.data)
    d = diff(it, mt)
    if d:
        path, cat = d
        rec.violation("C06.tree-equals-model", f"stream|{cat}", case.witness(),
                      f"on the shipped decoders' own hit stream the tree differs from the model at {list(path)}: {cat}; "
                      f"impl={core.short(it, 200)} model={core.short(mt, 200)}", case.size)
    elif not parents_ok(case.tree):
        rec.violation("C06.parent-links", "stream|reparented", case.witness(),
                      "a node's parent pointer does not name the node whose child list holds it", case.size)


def replay(w, rec):
    eng = w.get("engine")
    if eng == "hitx-stretch":
        from mdmc.props import _engineprop as ep
        ep.replay(w, rec, "C06.total", lambda rec, run, w, size: check_run(rec, run, size, w, counted=True), None)
    elif eng == "hitx" and w.get("entry") == "scan_node":
        T, hits = w["T"], tuple(tuple(h) for h in w["hits"])
        run = hitx.execute(T, hits, w["depth"], w["mode"], w["grouped"])
        check_entry_point(rec, T, hits, w["depth"], w["mode"], w["grouped"], run.model.tup(), 0)
    elif eng == "hitx":
        run_config(rec, w["T"], tuple(tuple(h) for h in w["hits"]), w["depth"], w["mode"], w["grouped"])
    elif eng == "empty-registry":
        special("empty-registry", rec)
    elif eng == "optimize":
        run_optimize(rec, w["flag"])
    elif eng == "stream":
        streams.replay(w, rec, stream_monitor)
