"""C03  The result is a well-formed tree over the input with in-bounds spans."""
from __future__ import annotations

import itertools

from mdmc import core, monitors, trees
from mdmc.engines import hitx, streams
from mdmc.props import _engineprop as ep

ID = "C03"
TITLE = "The result is a well-formed tree over the input with in-bounds spans"
TOTAL = "C03.scan-returns"

BOUNDS = {
    "quick": dict(
        full=[dict(N=4, K=2, depths=(1, 2, 3), modes=("r0", "rp"), grouped=(False,), hi=True, kinds=hitx.KINDS_HI),
              dict(N=4, K=2, depths=(-1, 0, 1, 2, 3), modes=hitx.MODES, grouped=(False, True)),
              dict(N=4, K=3, depths=(2,), modes=("r0",), grouped=(False,)),
              dict(N=4, K=3, depths=(1, 2), modes=("r0", "rp"), grouped=(False,), kinds=hitx.KINDS_LBL),
              dict(N=4, K=2, depths=(1, 2), modes=("r0", "rp", "rk"), grouped=hitx.HOWS)],
        streams="quick"),
    "thorough": dict(
        full=[dict(N=4, K=3, depths=(1, 2, 3), modes=("r0", "rp"), grouped=(False,), hi=True, kinds=hitx.KINDS_HI),
              dict(N=5, K=2, depths=(-1, 0, 1, 2, 3, 4), modes=hitx.MODES, grouped=(False, True)),
              dict(N=4, K=3, depths=(1, 2, 3), modes=hitx.MODES, grouped=(False,)),
              dict(N=5, K=3, depths=(2,), modes=("r0", "rk"), grouped=(False,)),
              dict(N=5, K=3, depths=(1, 2), modes=("r0", "rp"), grouped=(False,), kinds=hitx.KINDS_LBL),
              dict(N=4, K=3, depths=(1, 2), modes=("r0", "rp", "rk"), grouped=hitx.HOWS)],
        streams="thorough"),
}


def describe(tier):
    return {
        "rule": ep.RULE_PREFIX + ep.RULE_STRETCH + "Oracle on EVERY node of EVERY tree: root = ('', input, '', 0, len(input), no parent); each node listed "
        "exactly once (identity) by the node its parent pointer names; list(root) equals the identity pre-order walk; 0<=start<=end<=len(parent.value). "
        "Long texts (300 bytes to 70/140/300 kB) with every list of <= 2 (3) hits over 7 scaled positions x 4 kinds. Dedicated sub-structure families (scan level): the encoded/plain PowerShell grammar of C16, the URL grammars and Windows path grammar of C12, xor "
        "carriers x keys, valid and truncated PE images, PE images with each of the 16 data directories pointed at the overlay after the last section (shorter / exactly / longer than what is there), at a section RVA and at the top of the 32-bit range, whole and truncated. Object lifetime: for the block N=4,K<=2 and the ctx/mix stream families the caller keeps only list(scan(..)) / scan(..).children and drops the root; "
        "every kept node must still reach the root through its parent pointers and slice its parent exactly as when the root is held. "
        "Non-trivial = a tree with at least one node two levels below the root or with decoder-supplied sub-structure (distinct by shape).",
        "bounds": BOUNDS[tier],
        "assumptions": ["scans that raise or hang are counted and left to C01", "fixture keyword directory instead of the 5316 shipped keywords"],
        "exhaustive": True,
    }


# ---- long texts: hit lengths and offsets far beyond the small-scope texts (64 KiB boundaries) -------------------------
LONG_N = {"quick": (300, 70001), "thorough": (300, 70001, 140003, 300007)}
LONG_KINDS = ("p", "q", "d1", "dL")


def long_text(n):
    return bytes(97 + (i * 7 + i // 251) % 26 for i in range(n))


def long_configs(n, kmax):
    pos = [0, 1, 6, n // 2, n - 7, n - 1, n]
    ivs = [(a, b) for i, a in enumerate(pos) for b in pos[i + 1:]]
    cands = [(a, b, k) for (a, b) in ivs for k in LONG_KINDS]
    for k in range(1, kmax + 1):
        yield from itertools.product(cands, repeat=k)


SUB = ["ps-enc", "ps-plain", "urlA", "urlB", "win", "xor", "pe", "pe-dirs"]


def plan(tier, seed):
    units = [(tier,) + u for u in ep.plan(BOUNDS[tier])] + ep.interp_units(tier)
    for kind in SUB:
        for part in range(8):
            units.append((tier, "sub", kind, part))
    for n in LONG_N[tier]:
        for part in range(16):
            units.append((tier, "long", n, part))
    units += [(tier, "lifetime", "small")] + [(tier, "lifetime", u) for u in streams.plan("quick", lite=1, fams=["ctx", "mix"])]
    return units


# ---- object lifetime: the caller keeps nodes but not the root (nodes = list(md.scan(data)), md.scan(data).children, a helper returning a sub-node)


def _chain(n):
    out = []
    while n is not None and len(out) < 64:
        out.append((n.type, n.value, n.obfuscation, n.start, n.end, n.original))
        n = n.parent
    return tuple(out)


def lifetime_check(rec, reg, data, depth, w, size):
    from multidecoder.multidecoder import Multidecoder

    rec.count("evaluations")
    try:
        root = Multidecoder(reg).scan(data, depth)
        held = [_chain(n) for n in root]
        nodes = list(Multidecoder(reg).scan(data, depth))  # the root is not kept by the caller
        dropped = [_chain(n) for n in nodes]
        kids = Multidecoder(reg).scan(data, depth).children
        top = [_chain(n) for n in kids]
    except core.Hang:
        raise
    except Exception:  # noqa: BLE001
        rec.note("scan-raised (reported by C01)")
        return
    rec.count("traces")
    rec.count("transitions", len(held))
    if held:
        rec.mark("nontrivial", (data, depth))
    if dropped != held or top != [c for c in held if len(c) == 2]:
        bad = [c for c, h in zip(dropped, held) if c != h][:1] or [c for c in top][:1]
        rec.violation("C03.parent-links", "parent-chain-lost-when-root-not-kept", w,
                      f"scan of {core.short(data, 60)} at depth {depth}: a node kept by the caller after the root was dropped no longer reaches the root through its parent "
                      f"pointers / no longer slices its parent: chain {core.short(bad, 200)}", size)


def run_lifetime(rec, tier, what):
    n = 0
    if what == "small":
        T = hitx.text_for(ep.SMALL["N"], False)
        for first in hitx.candidates(ep.SMALL["N"], hitx.KINDS):
            for hits in hitx.configs_from(first, ep.SMALL["N"], ep.SMALL["K"], kinds=hitx.KINDS):
                for depth in (1, 2):
                    for mode in ("r0", "rp"):
                        _, ireg = hitx.registries(T, hits, mode, False)
                        rec.mark("states", (hits, depth, mode), True)
                        lifetime_check(rec, ireg, T, depth, {"engine": "lifetime", "T": T, "hits": [list(h) for h in hits], "depth": depth, "mode": mode}, len(hits) * 100 + depth)
                        n += 1
    else:
        from mdmc import families
        name, t, first, lite = what
        fam = families.get(name)
        reg = streams.registry()
        for level, s, unique in fam.states(t, first, fam.L[t] - lite):
            rec.mark("states", s, unique)
            for pre, suf in fam.wraps:
                data = pre + s + suf
                lifetime_check(rec, reg, data, 10, {"engine": "lifetime-stream", "family": name, "data": data, "depth": 10}, len(data))
                n += 1
    rec.sample({"engine": "lifetime", "what": what if isinstance(what, str) else list(what), "cases": n})


def sub_inputs(tier, kind, part, nparts=8):
    """Inputs that make single decoders return pre-assembled sub-structure (URL parts, path parts, xor children, powershell-in-cmd children, PE)."""
    import itertools

    from mdmc import pegen
    from mdmc.props import c12, c16

    stride = 5 if (tier == "quick" and kind in ("ps-enc", "urlA")) else 1  # quick: every 5th case of the two largest grammars

    def take(it):
        for i, x in enumerate(it):
            if i % (nparts * stride) == part:
                yield x

    if kind == "ps-enc":
        for ti in range(len(c16.PS_TOKENS)):
            for data, *_ in take(c16.ps_enc_cases(tier, ti)):
                yield data
    elif kind == "ps-plain":
        for data, *_ in take(c16.ps_plain_cases()):
            yield data
    elif kind == "urlA":
        gen = (c12.embed(sc + b"://" + ui + h + po + pa + q + f, e) for sc, ui, h, po, pa, q, f, e in
               itertools.product(c12.SCHEMES[:3], c12.USERINFO, c12.HOSTS, c12.PORTS, (b"", b"/a/../%41"), c12.QUERIES[::2], c12.FRAGS[::2], c12.EMBED[:3]))
        yield from take(gen)
    elif kind == "urlB":
        L = 2 if tier == "quick" else 3
        gen = (b"see http://u:p@ex%61mple.com:80" + p + q + f + b" now" for p in c12.paths(L) for q in c12.QUERIES for f in c12.FRAGS)
        yield from take(gen)
    elif kind == "win":
        L = 2 if tier == "quick" else 3
        gen = (pre + prefix + b"\\".join(combo).replace(b"\\\\", b"\\") + b"\\" + fn + suf
               for prefix in c12.WIN_PREFIX for k in range(1, L + 1) for combo in itertools.product(c12.WIN_SEGS, repeat=k) for fn in c12.WIN_FILES for pre, suf in c12.WIN_EMBED)
        yield from take(gen)
    elif kind == "xor":
        carriers = [b"[System.Convert]::FromBase64String('R1ZASEdWQEg=')", b"FromHexString('4756404803444c4650035256424048')",
                    b"$b = " + b",".join(b"%d" % (65 + i % 26) for i in range(501))]
        gen = (pre + c + sp % key for c in carriers for key in (0, 1, 35, 255, 256, 999) for sp in (b" -bxor %d", b"-xor%d") for pre in (b"", b"x = "))
        yield from take(gen)
    elif kind == "pe":
        gen = (pre + pegen.valid_pe(n)[:cut] + suf for n in (1, 2) for cut in (None, 0x3F0, 0x300, 0x250) for pre in (b"", b"x", b"MZ ") for suf in (b"", b" t"))
        yield from take(gen)
    elif kind == "pe-dirs":
        # every data directory (16) pointed at: nothing, the overlay right after the last section (shorter than / exactly / longer than what is
        # there), a section RVA, the top of the 32-bit range; whole and truncated images, at offset 0 and behind a prefix
        def dirs():
            for n in (1, 2):
                end = 0x200 + 0x200 * n
                for di in range(16):
                    for va, size, overlay in ((end, 0x100, 0x100), (end, 0x100, 0x80), (end, 0x10000, 0), (end + 8, 0x18, 0x10), (0x1000, 0x80, 0), (0xFFFFFFF8, 8, 0), (end, 0xFFFFFFF0, 0x20)):
                        img = pegen.valid_pe_dir(n, di, va, size, overlay)
                        for cut in (None, end, end - 0x10, 0x250):
                            for pre in (b"", b"xy "):
                                yield pre + img[:cut]
        yield from take(dirs())


def run_sub(rec, tier, kind, part):
    from mdmc.engines import streams as st

    reg = st.registry()
    names = _names()
    last = b""
    for data in sub_inputs(tier, kind, part):
        rec.count("evaluations")
        rec.mark("states", (kind, data))
        w = {"engine": "stream", "family": "sub:" + kind, "data": data, "depth": 10}
        try:
            core.WATCH.serial += 1
            core.WATCH.armed = True
            tree, log = trees.iscan(reg, data, 10)
        except core.Hang:
            rec.note("scan-hung (reported by C01)")
            continue
        except Exception:  # noqa: BLE001
            rec.note("scan-raised (reported by C01)")
            continue
        finally:
            core.WATCH.armed = False
        rec.count("traces")
        rec.count("transitions", len(log.hits))
        nodes = monitors.c03(rec, tree, data, log, w, len(data), names)
        _mark(rec, tree, nodes, log, data)
        last = data
    rec.sample({"family": "sub:" + kind, "part": part, "last": last})


def _mark(rec, tree, nodes, log, key):
    rec.mark("outcomes", trees.shape(tree))
    if any(n.parent is not tree for n in nodes) or log.supplied:
        rec.mark("nontrivial", key)


def on_run(rec, run, w, size):
    nodes = monitors.c03(rec, run.impl, run.T, run.log, w, size)
    _mark(rec, run.impl, nodes, run.log, (run.T, run.hits, run.depth, run.mode, run.grouped))


_NAMES = None


def _names():
    global _NAMES
    if _NAMES is None:
        _NAMES = [getattr(d, "__name__", None) or getattr(getattr(d, "func", None), "__name__", "?") + ":" + str(getattr(d, "args", ["?"])[0])
                  for d in streams.registry()]
    return _NAMES


def on_case(rec, case):
    rec.count("traces")
    rec.count("transitions", len(case.log.hits))
    nodes = monitors.c03(rec, case.tree, case.data, case.log, case.witness(), case.size, _names())
    _mark(rec, case.tree, nodes, case.log, case.data)


def run_long(rec, tier, n, part):
    T = long_text(n)
    kmax = 2 if (tier == "quick" or n > 150000) else 3
    last = ()
    for i, hits in enumerate(long_configs(n, kmax)):
        if i % 16 != part:
            continue
        w = {"engine": "hitx-long", "n": n, "hits": [list(h) for h in hits], "depth": 2}
        rec.count("evaluations")
        rec.mark("states", 0, True)
        ok, run = rec.guard(TOTAL, w, n // 1000 + len(hits), hitx.execute, T, hits, 2, "r0", False)
        if ok:
            rec.count("traces")
            rec.count("transitions", run.trace.transitions)
            nodes = monitors.c03(rec, run.impl, T, run.log, w, n // 1000 + len(hits))
            if any(x.parent is not run.impl for x in nodes):
                rec.mark("nontrivial", 0, True)
            last = hits
    rec.sample({"engine": "hitx-long", "text_length": n, "part": part, "last_configuration": [list(h) for h in last]})


def run_unit(unit, rec):
    if unit[1] == "long":
        run_long(rec, unit[0], unit[2], unit[3])
        return
    if unit[1] == "sub":
        run_sub(rec, unit[0], unit[2], unit[3])
        return
    if unit[1] == "lifetime":
        run_lifetime(rec, unit[0], unit[2])
        return
    ep.run_unit(unit[1:], rec, BOUNDS[unit[0]], TOTAL, on_run, on_case)


def replay(w, rec):
    if w.get("engine") == "hitx-long":
        T = long_text(w["n"])
        hits = tuple(tuple(h) for h in w["hits"])
        ok, run = rec.guard(TOTAL, w, 0, hitx.execute, T, hits, 2, "r0", False)
        if ok:
            monitors.c03(rec, run.impl, T, run.log, w, 0)
        return
    if w.get("engine") == "lifetime":
        _, ireg = hitx.registries(w["T"], tuple(tuple(h) for h in w["hits"]), w["mode"], False)
        lifetime_check(rec, ireg, w["T"], w["depth"], w, 0)
        return
    if w.get("engine") == "lifetime-stream":
        lifetime_check(rec, streams.registry(), w["data"], w["depth"], w, 0)
        return
    ep.replay(w, rec, TOTAL, on_run, on_case)
