"""C03  The result is a well-formed tree over the input with in-bounds spans."""
from __future__ import annotations

from mdmc import monitors, trees
from mdmc.engines import hitx, streams
from mdmc.props import _engineprop as ep

ID = "C03"
TITLE = "The result is a well-formed tree over the input with in-bounds spans"
TOTAL = "C03.scan-returns"

BOUNDS = {
    "quick": dict(
        full=[dict(N=4, K=2, depths=(-1, 0, 1, 2, 3), modes=hitx.MODES, grouped=(False, True)),
              dict(N=4, K=3, depths=(2,), modes=("r0",), grouped=(False,))],
        streams="quick"),
    "thorough": dict(
        full=[dict(N=5, K=2, depths=(-1, 0, 1, 2, 3, 4), modes=hitx.MODES, grouped=(False, True)),
              dict(N=4, K=3, depths=(1, 2, 3), modes=hitx.MODES, grouped=(False,)),
              dict(N=5, K=3, depths=(2,), modes=("r0", "rk"), grouped=(False,))],
        streams="thorough"),
}


def describe(tier):
    return {
        "rule": ep.RULE_PREFIX + "Oracle on EVERY node of EVERY tree: root = ('', input, '', 0, len(input), no parent); each node listed "
        "exactly once (identity) by the node its parent pointer names; list(root) equals the identity pre-order walk; 0<=start<=end<=len(parent.value). "
        "Non-trivial = a tree with at least one node two levels below the root or with decoder-supplied sub-structure (distinct by shape).",
        "bounds": BOUNDS[tier],
        "assumptions": ["scans that raise or hang are counted and left to C01", "fixture keyword directory instead of the 5316 shipped keywords"],
        "exhaustive": True,
    }


def plan(tier, seed):
    return [(tier,) + u for u in ep.plan(BOUNDS[tier])]


def _mark(rec, tree, nodes, log, key):
    rec.mark("outcomes", trees.shape(tree))
    if any(n.parent is not tree for n in nodes) or log.supplied:
        rec.mark("nontrivial", key)


def on_run(rec, run, w, size):
    nodes = monitors.c03(rec, run.impl, run.T, run.log, w, size)
    _mark(rec, run.impl, nodes, run.log, (run.T, run.hits, run.depth, run.mode, run.grouped))


def on_case(rec, case):
    rec.count("traces")
    rec.count("transitions", len(case.log.hits))
    names = [getattr(d, "__name__", None) or getattr(getattr(d, "func", None), "__name__", "?") + ":" + str(getattr(d, "args", ["?"])[0])
             for d in streams.registry()]
    nodes = monitors.c03(rec, case.tree, case.data, case.log, case.witness(), case.size, names)
    _mark(rec, case.tree, nodes, case.log, case.data)


def run_unit(unit, rec):
    ep.run_unit(unit[1:], rec, BOUNDS[unit[0]], TOTAL, on_run, on_case)


def replay(w, rec):
    ep.replay(w, rec, TOTAL, on_run, on_case)
