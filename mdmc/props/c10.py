"""C10  Reported network indicators are well-formed and normalised."""
from __future__ import annotations

import itertools

from multidecoder.decoders import network
from multidecoder.domains import TOP_LEVEL_DOMAINS
from multidecoder.multidecoder import Multidecoder

from mdmc import core, trees
from mdmc.engines import streams
from mdmc.refs import url_ref

ID = "C10"
TITLE = "Reported network indicators are well-formed and normalised"
STREAM_FAMS = ["net", "mix", "winpath", "kw", "ctx", "pairs"]
DOMAIN_CHARS = set(b"abcdefghijklmnopqrstuvwxyzABCDEFGHIJKLMNOPQRSTUVWXYZ0123456789-.")

OCTETS = [b"0", b"1", b"01", b"255", b"256", b"0x1", b"1e1", b"10", b"192", b"001", b"99"]
IP_PRE = [b"", b" ", b"x", b".", b"-", b"v", b"version ", b"sec. ", b"<t>"]
IP_SUF = [b"", b" ", b".", b"x", b"-5", b".5", b":80"]
LABELS = [b"a", b"ab", b"a-b", b"-a", b"a_", b"xn--abcd", b"abcde", b"a.b", b"this", b"data"]
DOM_PRE = [b"", b" ", b"_", b"\\", b".", b"-", b"@", b"//"]
DOM_SUF = [b"", b" ", b"0", b"1", b"(", b"=", b".", b"/x", b"-"]
LOCALS = [b"bob", b"b.o", b"ab", b"a%b+c", b"x_y", b"B-0"]
MAIL_DOMS = [b".com", b"..org", b"example.org", b"a.co", b"x.y.international", b"a-b.xn--p1ai", b"a.notatld", b"1.2.3.4", b"a.com0"]


EXTRA_HOSTS = [b"", b"a", b"%zz.com", b".com", b"%2Einfo", b"..com", b".a.com", b"a..com", b"-.org", b"....", b"com.", b"[::1%47]", b"[fe80::1%25eth0]", b"[::1%2541]", b"paypal.%EF%AC%81", b"a.%EF%BC%A3%EF%BC%AF%EF%BC%AD", b"a.n%C2%ADet", b"a.%C5%BFe", b"example.%D1%80%D1%84", b"a.%EF%BB%BFcom", b"%C3%A9.com", b"a.co%CC%81m"]
URL_PATHS = (b"", b"/", b"/%41/%2f/..%zz", b"/%4%41", b"/%%37E/x", b"/%%34%31")


def describe(tier):
    return {
        "rule": (
            "Forward monitor on EVERY node typed network.ip / network.domain / network.email / network.url (i) in every scan tree of the "
            f"{STREAM_FAMS} scan-level families (all token sequences up to the family bound), (ii) returned by find_ips on every 4-tuple of octet spellings "
            f"{[o.decode() for o in OCTETS]} x {len(IP_PRE)} prefixes x {len(IP_SUF)} suffixes, by find_domains on EVERY entry of TOP_LEVEL_DOMAINS x {len(LABELS)} label shapes x "
            f"{len(DOM_PRE)}x{len(DOM_SUF)} neighbours, by find_emails on {len(LOCALS)}x{len(MAIL_DOMS)} addresses x neighbours, and by find_urls on the URL grammar of C12 (incl. nested escapes such as %4%41 whose normal form contains a new escape); every reported URL value is fed back to the decoder in the same process and validated again. "
            "Validators written from the statement: canonical dotted quad by integer parsing (free-text IP: value == covered text); domain = non-empty name + '.' + "
            "registered TLD (free text: only letters/digits/hyphen/dot, >= 7 characters); e-mail = local@such-a-domain; URL: scheme in {http,https,ftp} ignoring "
            "case, non-empty host, value == own percent-normalisation of the covered text (names of every label length 1..63 over 4 alphabets under 15 special-use suffixes such as .onion / .local / .eth that are not registered TLDs, in free text, e-mail, URL and UNC host position; every escape %XY: 256 values x every letter-case spelling of its two hex digits x 6 URL positions), label escape.percent iff that shortened it. "
            "states = distinct inputs, transitions = indicator nodes validated, traces = scans / decoder calls. Non-trivial = input with >= 1 indicator node."
        ),
        "bounds": {"octet_spellings": len(OCTETS), "tlds": len(TOP_LEVEL_DOMAINS), "labels": len(LABELS)},
        "assumptions": ["TOP_LEVEL_DOMAINS is the definition of 'registered' (sanity: > 1000 entries, all upper-case ASCII)"],
        "exhaustive": True,
    }


def plan(tier, seed):
    units = [("ips", i) for i in range(len(OCTETS))]
    units += [("domains", i, 16) for i in range(16)]
    units += [("emails",), ("urls", 0), ("urls", 1), ("tld-table",)] + [("escapes", hi) for hi in range(0, 256, 32)] + [("special-tlds", i) for i in range(len(SPECIAL_TLDS))]
    units += [("stream", u) for u in streams.plan(tier, fams=STREAM_FAMS)]
    units += core.interp_axis([("emails",), ("tld-table",), ("ips", 0)])
    return units


def domain_ok(v: bytes) -> bool:
    i = v.rfind(b".")
    return i > 0 and v[i + 1 :].upper() in TOP_LEVEL_DOMAINS


def validate(rec, n, orig, free_text, w, size):
    """n: node; orig: the text it covers (None if unknown); free_text: produced by the free-text decoder of its type."""
    rec.count("transitions")
    t, v = n.type, n.value
    if t == "network.ip":
        if not url_ref.is_canonical_ipv4(v):
            rec.violation("C10.ip.canonical", f"ip-not-canonical|{'free' if free_text else 'part'}", w, f"IPv4 node value {v!r} is not a canonical dotted quad", size)
        elif free_text and orig is not None and v != orig:
            rec.violation("C10.ip.free-text", "ip-free-text-differs", w, f"free-text IPv4 node value {v!r} differs from the text it covers {orig!r}", size)
    elif t == "network.domain":
        if not domain_ok(v):
            rec.violation("C10.domain.tld", f"domain-tld|{'free' if free_text else 'part'}", w, f"domain node value {v!r} is not name + '.' + registered TLD", size)
        elif free_text and (len(v) < 7 or any(c not in DOMAIN_CHARS for c in v)):
            rec.violation("C10.domain.free-text", "domain-free-text-shape", w, f"free-text domain {v!r} is shorter than 7 or has characters outside letters/digits/-/.", size)
    elif t == "network.email":
        at = v.rfind(b"@")
        if at <= 0 or not domain_ok(v[at + 1 :]):
            rec.violation("C10.email", "email-shape", w, f"e-mail node value {v!r} is not local-part@domain under a registered TLD", size)
    elif t == "network.url":
        parts = url_ref.split_url(v)
        scheme = v[: parts["scheme"][1]].lower() if parts else b""
        if parts is None or scheme not in (b"http", b"https", b"ftp"):
            rec.violation("C10.url.scheme", "url-scheme", w, f"URL node value {core.short(v, 60)} has scheme {scheme!r}", size)
        elif "host" not in parts:
            rec.violation("C10.url.host", "url-empty-host", w, f"URL node value {core.short(v, 60)} has an empty host", size)
        if orig is not None:
            exp = url_ref.pct_normalise(orig)
            if v != exp:
                rec.violation("C10.url.normalised", "url-not-normalised", w, f"URL over {core.short(orig, 60)} has value {core.short(v, 60)}, normal form {core.short(exp, 60)}", size)
            want = "escape.percent" if len(v) < len(orig) else ""
            if n.obfuscation != want:
                rec.violation("C10.url.label", "url-label-iff-shortened", w, f"URL over {core.short(orig, 60)} labelled {n.obfuscation!r}, expected {want!r}", size)


# a closing quote / parenthesis inside what the URL pattern takes for userinfo: the context trimming may leave nothing but the scheme
QUOTED_USERINFO = [b"'+u+':'+p+'@", b"'@", b")@", b"\"@"]
# names under special-use / alternative-root suffixes that are NOT registered top-level domains: whatever their form (label length 1..63,
# base32 / hex / decimal alphabets - .onion v2/v3 addresses are 16 / 56 base32 characters, .eth and .bit names are free-form), they are not domains
SPECIAL_TLDS = [b"onion", b"local", b"localhost", b"test", b"example", b"invalid", b"internal", b"lan", b"home", b"corp", b"bit", b"i2p", b"eth", b"exit", b"alt"]
NET_TYPES = ("network.ip", "network.domain", "network.email", "network.url")
FREE = {"find_ips": "network.ip", "find_domains": "network.domain", "find_emails": "network.email", "find_urls": "network.url"}


def stream_monitor(rec, case):
    reg = streams.registry()
    any_net = False
    for n in trees.walk(case.tree):
        if n.type not in NET_TYPES:
            continue
        any_net = True
        h = case.log.hits.get(id(n))
        if h is not None:
            _, ri, _, text, a, b = h
            prod = getattr(reg[ri], "__name__", "")
            validate(rec, n, text[a:b], FREE.get(prod) == n.type, case.witness(), case.size)
            # 'the text it covers' is also what the TREE says the node covers: parent.value[start:end] (contexts equal their text up to case)
            p = n.parent
            if p is not None and n.start >= 0:
                cov = n.original  # what the tree says the node covers (a span that runs past the parent's value covers less than reported)
                if n.type == "network.url" and n.value.lower() != url_ref.pct_normalise(cov).lower():
                    rec.violation("C10.url.covers", "url-value-vs-covered-text-in-tree", case.witness(),
                                  f"URL node value {core.short(n.value, 60)} is not the normalised text it covers in its parent: {core.short(cov, 60)}", case.size)
                elif n.type == "network.ip" and FREE.get(prod) == n.type and n.value != cov:
                    rec.violation("C10.ip.covers", "ip-value-vs-covered-text-in-tree", case.witness(),
                                  f"free-text IPv4 node value {n.value!r} differs from the text it covers in its parent {cov!r}", case.size)
        else:
            p = n.parent
            orig = p.value[n.start : n.end] if p is not None and 0 <= n.start <= n.end <= len(p.value) else None
            validate(rec, n, orig if n.type != "network.url" else None, False, case.witness(), case.size)
    if any_net:
        rec.mark("nontrivial", case.data)


def call(rec, fn, data, w, refeed=True):
    rec.count("evaluations")
    rec.mark("states", data, True)
    ok, hits = rec.guard("C10.total", w, len(data), fn, data)
    if not ok:
        return
    rec.count("traces")
    if hits:
        rec.mark("nontrivial", data, True)
    for n in hits:
        validate(rec, n, data[n.start : n.end] if 0 <= n.start <= n.end <= len(data) else None, True, w, len(data))
        for c in n.children:
            if c.type in NET_TYPES:
                validate(rec, c, None, False, w, len(data))
        if n.type == "network.url" and refeed and n.value != data:
            # the reported value is itself text: feeding it back must report it with ITS normal form (one more pass may shorten it again)
            call(rec, fn, n.value, dict(w, refed=n.value), refeed=False)


def run_unit(unit, rec):
    kind = unit[0]
    if kind == "ips":
        o1 = OCTETS[unit[1]]
        for o2, o3, o4 in itertools.product(OCTETS, repeat=3):
            ip = b".".join((o1, o2, o3, o4))
            for pre in IP_PRE:
                for suf in IP_SUF:
                    data = pre + ip + suf
                    call(rec, network.find_ips, data, {"kind": "call", "fn": "find_ips", "data": data})
        rec.sample({"family": "ips", "last": data})
    elif kind == "domains":
        tlds = sorted(TOP_LEVEL_DOMAINS)
        for ti in range(unit[1], len(tlds), unit[2]):
            tld = tlds[ti]
            for tl in (tld.lower(), tld):
                for lab in LABELS:
                    for pre in DOM_PRE:
                        for suf in DOM_SUF:
                            data = pre + lab + b"." + tl + suf
                            call(rec, network.find_domains, data, {"kind": "call", "fn": "find_domains", "data": data})
        rec.sample({"family": "domains", "last": data})
    elif kind == "special-tlds":
        tld = SPECIAL_TLDS[unit[1]]
        n = 0
        if tld.upper() in TOP_LEVEL_DOMAINS:
            rec.note("special-use name that is registered after all: skipped")
        else:
            for alphabet in (b"abcdefghijklmnopqrstuvwxyz234567", b"0123456789abcdef", b"a", b"x-y"):
                for ln in range(1, 64):
                    lab = (alphabet * 3)[:ln].strip(b"-") or b"a"
                    for name in (lab + b"." + tld, b"www." + lab + b"." + tld.upper()):
                        for data, fn in ((b"see " + name + b" now", network.find_domains), (b"mail bob@" + name + b" now", network.find_emails),
                                         (b"get http://" + name + b"/x now", network.find_urls)):
                            call(rec, fn, data, {"kind": "call", "fn": fn.__name__, "data": data})
                            n += 1
                        data = b"open \\\\" + name + b"\\share\\f.txt now"
                        rec.count("evaluations")
                        ok, tree = rec.guard("C10.total", {"kind": "scan", "data": data}, len(data), Multidecoder(streams.registry()).scan, data)
                        if ok:
                            rec.count("traces")
                            for nd in trees.walk(tree):
                                if nd.type in NET_TYPES:
                                    validate(rec, nd, None, False, {"kind": "scan", "data": data}, len(data))
                        n += 1
        rec.sample({"family": "special-use-suffixes", "tld": tld, "cases": n})
    elif kind == "emails":
        for loc, dom, pre, suf in itertools.product(LOCALS, MAIL_DOMS, (b"", b" ", b"<", b"x"), (b"", b" ", b">", b".", b"x")):
            data = pre + loc + b"@" + dom + suf
            call(rec, network.find_emails, data, {"kind": "call", "fn": "find_emails", "data": data})
        rec.sample({"family": "emails", "last": data})
    elif kind == "urls":
        from mdmc.props import c12

        schemes = c12.SCHEMES + [b"gopher", b"HTTPX", b"ftps", b"file"]
        half = len(schemes) // 2
        for scheme in (schemes[:half] if unit[1] == 0 else schemes[half:]):
            for ui, host, port, path, q, f, e in itertools.product(c12.USERINFO[:6] + QUOTED_USERINFO, c12.HOSTS + EXTRA_HOSTS, c12.PORTS[:2], URL_PATHS, c12.QUERIES[:3:2], c12.FRAGS[:3:2], c12.EMBED[:2]):
                url = scheme + b"://" + ui + host + port + path + q + f
                data = c12.embed(url, e)
                call(rec, network.find_urls, data, {"kind": "call", "fn": "find_urls", "data": data})
        rec.sample({"family": "urls", "last": data})
    elif kind == "escapes":
        # EVERY escape %XY: all 256 values x every letter-case spelling of the two hex digits (xy, xY, Xy, XY) x 6 positions of a URL
        n = 0
        for v in range(unit[1], unit[1] + 32):
            hx = b"%02x" % v
            spellings = {bytes([c1, c2]) for c1 in (hx[0:1].lower()[0], hx[0:1].upper()[0]) for c2 in (hx[1:2].lower()[0], hx[1:2].upper()[0])}
            for sp in sorted(spellings):
                esc = b"%" + sp
                for url in (b"http://example.com/x" + esc + b"y", b"http://example.com/a?q=" + esc, b"http://example.com/a#" + esc + b"z", b"http://u" + esc + b":p@example.com/",
                            b"http://ex" + esc + b"ample.com/", b"ftp://example.com/" + esc + esc.swapcase() + b"/" + esc):
                    for pre, suf in ((b"", b""), (b"see ", b" now")):
                        data = pre + url + suf
                        call(rec, network.find_urls, data, {"kind": "call", "fn": "find_urls", "data": data})
                        n += 1
        rec.sample({"family": "every-escape-every-case-spelling", "values": [unit[1], unit[1] + 31], "cases": n})
    elif kind == "tld-table":
        rec.count("evaluations")
        rec.count("traces")
        rec.count("transitions", len(TOP_LEVEL_DOMAINS))
        rec.mark("states", 0, True)
        bad = [t for t in TOP_LEVEL_DOMAINS if not isinstance(t, bytes) or t != t.upper() or not t or any(c not in DOMAIN_CHARS for c in t) or b"." in t]
        if len(TOP_LEVEL_DOMAINS) < 1000 or bad or b"COM" not in TOP_LEVEL_DOMAINS:
            rec.violation("C10.tld-table", "tld-table-shape", {"kind": "tld-table"}, f"TOP_LEVEL_DOMAINS has {len(TOP_LEVEL_DOMAINS)} entries, malformed: {bad[:5]}", 1)
        rec.sample({"tld_table_entries": len(TOP_LEVEL_DOMAINS)})
    elif kind == "stream":
        streams.run_unit(unit[1], rec, stream_monitor, repeat=2)


def replay(w, rec):
    if w.get("kind") == "call":
        call(rec, getattr(network, w["fn"]), w["data"], w)
    elif w.get("kind") == "scan":
        ok, tree = rec.guard("C10.total", w, len(w["data"]), Multidecoder(streams.registry()).scan, w["data"])
        for nd in trees.walk(tree) if ok else ():
            if nd.type in NET_TYPES:
                validate(rec, nd, None, False, w, len(w["data"]))
    elif w.get("kind") == "tld-table":
        run_unit(("tld-table",), rec)
    elif w.get("engine") == "stream":
        streams.replay(w, rec, stream_monitor)
