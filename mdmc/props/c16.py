"""C16  Shell commands are delimited and de-escaped by cmd.exe rules."""
from __future__ import annotations

import base64
import itertools

from multidecoder.decoders import shell

from mdmc import core, families
from mdmc.engines import streams
from mdmc.engines.seqx import Family
from mdmc.refs import shell_ref

ID = "C16"
TITLE = "Shell commands are delimited and de-escaped by cmd.exe rules"

CARETS = Family("c16-carets", ["^", '"', "\r", "\n", "a"], {"quick": 9, "thorough": 11})
CMD = Family(
    "c16-cmd",
    ["cmd", 'cmd"', '"cmd"', "c^md", "C^M^D", " ", "a", "^", '"', "(", ")", "\r", "\n", "\x00", "  ", "'", "cmd.exe", '"cmd.exe"',
     "C:\\Windows\\System32\\"],
    {"quick": 4, "thorough": 5},
    wraps=[(b"", b""), (b"x ", b""), (b"(", b""), (b"", b") c")],
)
STREAM_FAMS = ["shell", "pwsh", "mix", "pairs"]


def describe(tier):
    return {
        "rule": (
            "Four exhaustive explorations. (1) strip_carets on EVERY string over {^,\",CR,LF,a} of length <= "
            f"{CARETS.L[tier]} against a three-state reference transducer written from the statement. (2) find_cmd_strings on every byte string "
            f"spelled by <= {CMD.L[tier]} tokens of {[t.decode('latin-1') for t in CMD.tokens]} x 4 embeddings against a reference that finds the "
            "leftmost cmd token per NUL-delimited segment without regexes, ends the span at the first unbalanced ')', de-escapes with the "
            "reference transducer, repairs a glued closing quote without touching whitespace and labels iff de-escaping changed the text; the "
            "comparison is on the complete result list, so it is both the forward and the converse direction. (3) PowerShell invocations from a "
            "grammar: token x value-less switches x EVERY prefix of -encodedcommand x -// style x argument quoting x payload x caret at EVERY "
            "position (<=1) x prefix context, and plain invocations x enclosing context {none,'..',\"..\",('..'),unclosed variants} x prefix x suffix; FOR-loop / quoted contexts whose opener lies 0..2200 (thorough ..9000) bytes before the token, every distance, with further quotes inside the command; every sequence of 2 (thorough 3) invocations from a 5-menu (plain / encoded, powershell / pwsh) x 5 shared contexts x 3 prefixes x 3 joiners x 3 suffixes, each invocation delimited on its own; 0..70 (and the ladder up to 1025) value-less switches before the encoded-command switch; EVERY Basic-Multilingual-Plane code point (surrogates excepted) inside an encoded script. "
            "(4) the same cmd reference on every value searched during scans of the shell/pwsh/mix scan-level families (nested contexts, decoded "
            "values). states = distinct inputs, transitions = decoder invocations compared, traces = comparisons with the reference. "
            "Non-trivial = an input on which the reference expects at least one result."
        ),
        "bounds": {"carets": CARETS.describe(tier), "cmd": CMD.describe(tier), "ps": ps_space(tier), "streams": STREAM_FAMS},
        "assumptions": [
            "PowerShell generator restricted to single-space separated, dash-style *other* switches and to contexts where 'the end of the encoded "
            "argument' is unambiguous (no carets inside a double-quoted argument); a quote that follows an UNQUOTED argument closes the enclosing string and is not part of the argument (fix 43facd4)",
            "the cmd token grammar (\"cmd\", \"cmd.exe\", optional C:\\Windows\\System32\\ prefix, c^m^d with word boundaries) is re-implemented without regexes",
        ],
        "exhaustive": True,
    }


def plan(tier, seed):
    units = [("carets", tier, u[2]) for u in CARETS.units(tier)]
    units += [("cmd", tier, u[2]) for u in CMD.units(tier)]
    units += [("ps-enc", tier, i) for i in range(len(PS_TOKENS))]
    units += [("ps-plain", tier)] + [("ps-far", tier, i) for i in range(8)]
    units += [("ps-multi", tier, i) for i in range(len(MULTI_INV))]
    units += [("ps-codepoints", i, 16) for i in range(16)] + [("ps-switch-ladder",)]
    units += [("stream", u) for u in streams.plan(tier, fams=STREAM_FAMS)]
    units += core.interp_axis([("ps-plain", tier), ("ps-multi", tier, 0), ("ps-multi", tier, 1), ("ps-far", tier, 0), ("ps-enc", tier, 1)] + [("cmd", tier, u[2]) for u in CMD.units(tier)[:4]] + [("carets", tier, u[2]) for u in CARETS.units(tier)[:2]])
    return units


# ---- (1) carets -----------------------------------------------------------------------------------------


def check_carets(rec, data):
    rec.count("evaluations")
    w = {"kind": "carets", "data": data}
    ok, got = rec.guard("C16.carets.total", w, len(data), shell.strip_carets, data)
    if not ok:
        return
    rec.count("traces")
    rec.count("transitions")
    exp = shell_ref.strip_ref(data)
    if exp != data:
        rec.mark("nontrivial", data, True)
    if got != exp:
        cause = "caret-before-CR" if b"^\r" in data else ("quote" if b'"' in data else "other")
        rec.violation("C16.carets", f"strip-carets-differs|{cause}", w,
                      f"strip_carets({data!r}) = {got!r}, cmd.exe rules give {exp!r}", len(data))
    ok, lab = rec.guard("C16.carets.total", w, len(data), shell.deobfuscate_cmd, data)
    if ok and lab != (exp, "unescape.shell.carets" if exp != data else ""):
        if lab[0] == exp:
            rec.violation("C16.carets.label", "label-iff-changed", w, f"deobfuscate_cmd({data!r}) labelled {lab[1]!r}", len(data))


# ---- (2) cmd ----------------------------------------------------------------------------------------------


def cmd_cause(data, got, exp):
    g = {(a, b): (v, l) for a, b, v, l in got}
    e = {(a, b): (v, l) for a, b, v, l in exp}
    if len(got) != len(exp):
        return "count"
    for (ga, gb, gv, gl), (ea, eb, ev, el) in zip(got, exp):
        if ga != ea:
            return "start"
        if gb != eb:
            return "end-runs-past-unbalanced-paren" if gb > eb and data[eb : eb + 1] == b")" else "end"
        if gv != ev:
            if b" ".join(gv.split()) == b" ".join(ev.split()):
                return "value-whitespace-rejoined"
            return "value"
        if gl != el:
            return "label"
    return "?"


def check_cmd(rec, data, w, size):
    rec.count("evaluations")
    ok, hits = rec.guard("C16.cmd.total", w, size, shell.find_cmd_strings, data)
    if not ok:
        return
    rec.count("traces")
    rec.count("transitions")
    got = [(h.start, h.end, h.value, h.obfuscation) for h in hits]
    exp = shell_ref.ref_cmd_hits(data)
    if exp:
        rec.mark("nontrivial", data)
    bad_type = [h for h in hits if h.type != "shell.cmd"]
    if bad_type:
        rec.violation("C16.cmd.type", "type", w, f"cmd result typed {bad_type[0].type!r}", size)
    if got != exp:
        cause = cmd_cause(data, got, exp)
        rec.violation("C16.cmd", f"cmd-results-differ|{cause}", w,
                      f"find_cmd_strings({core.short(data, 80)}) = {core.short(got, 160)}; expected by the statement: {core.short(exp, 160)} ({cause})", size)


# ---- (3) powershell ----------------------------------------------------------------------------------------

PS_TOKENS = [b"powershell", b"pwsh", b"powershell.exe", b"PowerShell", b"pwsh.exe"]
PS_SWITCHES = [[], [b"-nop"], [b"-NoP", b"-NonI"]]
_FULL = b"encodedcommand"
PS_ENC = [_FULL[:i] for i in range(1, len(_FULL) + 1)] + [b"ec"]
PS_STYLE = [b" -", b" /", b"/"]
PS_ARGQ = [(b"", b""), (b"'", b"'"), (b'"', b'"')]
PS_PAYLOADS = [base64.b64encode(t.encode("utf-16le")) for t in ("AB", "ABC", "echo bee")] + [
    base64.b64encode(b"\xff\xfe" + "echo bee".encode("utf-16le")), base64.b64encode(b"\xfe\xff" + "echo b".encode("utf-16be"))]  # with byte order marks
PS_PRE = [b"", b"x;", b"cmd /c "]
PS_TRAIL = [b"", b" t"]


def ps_space(tier):
    return {"tokens": len(PS_TOKENS), "switch_sets": len(PS_SWITCHES), "enc_spellings": len(PS_ENC), "styles": len(PS_STYLE), "arg_quotes": len(PS_ARGQ),
            "payloads": len(PS_PAYLOADS), "prefixes": len(PS_PRE), "trails": len(PS_TRAIL), "caret": "none + every position inside the invocation" if tier == "thorough" else "none + every 3rd position"}


def ps_expected_enc(data, start, end, token, switches, payload):
    raw = data[start:end]
    de = shell_ref.strip_ref(raw)
    tok = shell_ref.strip_ref(token)
    value = shell_ref.ps_encoded_value([tok] + switches, payload)
    if de != raw:
        return ("shell.cmd", de, "unescape.shell.carets", start, end, [("shell.powershell", value, "powershell.base64")])
    return ("shell.powershell", value, "powershell.base64", start, end, [])


def ps_got(hits):
    return [(h.type, h.value, h.obfuscation, h.start, h.end, [(c.type, c.value, c.obfuscation) for c in h.children]) for h in hits]


def ps_cause(data, start, got, exp):
    if not got:
        return "no-result"
    if len(got) > 1:
        return "several-results"
    g = got[0]
    if g[3] != exp[3]:
        return "start"
    if g[4] != exp[4]:
        before = data[:start]
        if g[4] == len(data) - start and start > 0 and b"'" not in before and b'"' not in before:
            return "ps-no-context-end-is-len-minus-start"
        if g[4] == -1:
            return "end-is-minus-one"
        return "end"
    if g[0] != exp[0] or g[2] != exp[2]:
        return "type-or-label"
    if g[1] != exp[1]:
        return "value"
    return "children"


def check_ps(rec, data, start, exp, w, size):
    rec.count("evaluations")
    ok, hits = rec.guard("C16.ps.total", w, size, shell.find_powershell_strings, data)
    if not ok:
        return
    rec.count("traces")
    rec.count("transitions")
    rec.mark("nontrivial", data)
    got = [g for g in ps_got(hits) if g[3] == start] or ps_got(hits)
    if got != [exp]:
        cause = ps_cause(data, start, got, exp)
        rec.violation("C16.powershell", f"ps-result-differs|{cause}", w,
                      f"find_powershell_strings({core.short(data, 90)}) = {core.short(got, 200)}; expected {core.short(exp, 200)} ({cause})", size)


def ps_enc_cases(tier, ti):
    token = PS_TOKENS[ti]
    for sw, enc, style, (q1, q2), payload, pre, trail in itertools.product(PS_SWITCHES, PS_ENC, PS_STYLE, PS_ARGQ, PS_PAYLOADS, PS_PRE, PS_TRAIL):
        inv = token + b"".join(b" " + s for s in sw) + style + enc + (b" ", b"  ", b"\t")[len(enc) % 3] + q1 + payload + q2
        arg_at = len(inv) - len(q1 + payload + q2)
        carets = [None] + [i for i in range(1, len(inv)) if tier == "thorough" or i % 3 == 1]
        for c in carets:
            if c is not None:
                if q1 == b'"' and c > arg_at:
                    continue  # carets are literal inside double quotes; the statement does not say what the value is then
                if inv[c - 1 : c] == b"^":
                    continue
                body = inv[:c] + b"^" + inv[c:]
            else:
                body = inv
            data = pre + body + trail
            start = len(pre)
            end = start + len(body)
            yield data, start, end, token if c is None or c >= len(token) else body[: len(token) + 1], list(sw), payload, {
                "kind": "ps-enc", "data": data, "start": start, "end": end, "token_len": len(token) + (0 if c is None or c >= len(token) else 1),
                "switches": list(sw), "payload": payload}


PLAIN_CMDS = [b" -c ls", b" -Command hostname", b" -nop -c ^l^s", b""]
PLAIN_CTX = [(b"", b""), (b"'", b"'"), (b'"', b'"'), (b"('", b"')"), (b"'", b""), (b'"', b""), (b"('", b"")]
PLAIN_PRE = [b"", b"x;", b"Invoke-Expression ", b"for /f %a in ", b"a=1;b=2&", b"a,", b"x=", b"{", b"c:\\dir\\", b"cmd /k ", b"x /r "]
PLAIN_POST = [b"", b" do echo %a", b";t"]


def ps_plain_cases():
    for token, cmd, (o, c), pre, post in itertools.product(PS_TOKENS, PLAIN_CMDS, PLAIN_CTX, PLAIN_PRE, PLAIN_POST):
        if not o and pre in (b"Invoke-Expression ", b"for /f %a in "):
            continue  # without an opening quote the token is not at a command position
        if c and post and cmd == b"":
            pass
        data = pre + o + token + cmd + c + post
        start = len(pre) + len(o)
        if c:
            end = start + len(token + cmd)
        else:
            end = len(data)  # unclosed or no context: runs to the end of the text
        raw = data[start:end]
        de = shell_ref.strip_ref(raw)
        exp = ("shell.powershell", de, "unescape.shell.carets" if de != raw else "", start, end, [])
        yield data, start, exp, {"kind": "ps-plain", "data": data, "start": start, "end": end}


# several invocations in one text / one context: each one is delimited on its own, whatever kind its neighbours are
MULTI_INV = [("plain", b"powershell", [], b" -c ls"), ("enc", b"powershell", [], b"QQBCAA=="), ("plain", b"pwsh", [], b" -nop -c dir x"),
             ("enc", b"pwsh", [b"-nop"], b"QQBCAEMA"), ("plain", b"PowerShell.exe", [], b"")]
MULTI_CTX = [(b"", b""), (b"'", b"'"), (b'"', b'"'), (b"('", b"')"), (b'"', b"")]
MULTI_PRE = [b"", b"cmd /c ", b"x = "]
MULTI_JOIN = [b" & ", b"; ", b" && echo ok & "]
MULTI_POST = [b"", b" & echo done", b" do echo %a"]


def ps_multi_cases(tier, first):
    L = 3 if tier == "thorough" else 2
    for k in range(1, L):
        for rest in itertools.product(range(len(MULTI_INV)), repeat=k):
            seq = (first,) + rest
            for (o, c), pre, join, post in itertools.product(MULTI_CTX, MULTI_PRE, MULTI_JOIN, MULTI_POST):
                if pre == b"x = " and not o:
                    continue
                parts, starts, ends = [], [], []
                pos = len(pre) + len(o)
                for j, ii in enumerate(seq):
                    kind, token, sw, tail = MULTI_INV[ii]
                    if kind == "enc":
                        inv = token + b"".join(b" " + x for x in sw) + b" -e " + tail
                    else:
                        inv = token + tail
                    if j:
                        pos += len(join)
                    starts.append(pos)
                    ends.append(pos + len(inv))
                    parts.append(inv)
                    pos += len(inv)
                data = pre + o + join.join(parts) + c + post
                close = len(pre) + len(o) + len(join.join(parts))
                for j, ii in enumerate(seq):
                    kind, token, sw, tail = MULTI_INV[ii]
                    w = {"kind": "ps-multi", "data": data, "start": starts[j], "tier": tier, "first": first}
                    if kind == "enc":
                        yield data, starts[j], ps_expected_enc(data, starts[j], ends[j], token, list(sw), tail), w
                    else:
                        end = close if c else len(data)
                        raw = data[starts[j]:end]
                        de = shell_ref.strip_ref(raw)
                        yield data, starts[j], ("shell.powershell", de, "unescape.shell.carets" if de != raw else "", starts[j], end, []), w


# ---- (4) streams ---------------------------------------------------------------------------------------------


def stream_monitor(rec, case):
    for sid, _, value in case.log.searches:
        w = {"kind": "cmd-in-scan", "family": case.family, "data": case.data, "searched": value}
        check_cmd(rec, value, w, case.size)


def run_unit(unit, rec):
    kind = unit[0]
    if kind == "carets":
        last = b""
        for level, s, unique in CARETS.states(unit[1], unit[2]):
            rec.mark("states", s, True)
            check_carets(rec, s)
            last = s
        rec.sample({"family": "carets", "data": last})
    elif kind == "cmd":
        last = b""
        for level, s, unique in CMD.states(unit[1], unit[2]):
            rec.mark("states", s, unique)
            for pre, suf in CMD.wraps:
                data = pre + s + suf
                check_cmd(rec, data, {"kind": "cmd", "data": data}, len(data))
            last = s
        rec.sample({"family": "cmd", "data": last})
    elif kind == "ps-enc":
        n = 0
        for data, start, end, token, sw, payload, w in ps_enc_cases(unit[1], unit[2]):
            rec.mark("states", data, True)
            check_ps(rec, data, start, ps_expected_enc(data, start, end, token, sw, payload), w, len(data))
            n += 1
        rec.sample({"family": "ps-enc", "token": PS_TOKENS[unit[2]], "cases": n, "last": data})
    elif kind == "ps-plain":
        for data, start, exp, w in ps_plain_cases():
            rec.mark("states", data, True)
            check_ps(rec, data, start, exp, w, len(data))
        rec.sample({"family": "ps-plain", "last": data})
    elif kind == "ps-switch-ladder":
        # the number of value-less switches before the encoded-command switch is an unbounded quantity too: 0..70 and the boundary ladder
        menu = [b"-nop", b"-NonI", b"-sta", b"/w", b"-noni", b"-NoLogo"]
        payload = PS_PAYLOADS[1]
        n = 0
        for k in sorted(set(range(0, 71)) | set(core.ladder(70, 1025))):
            sw = [menu[i % len(menu)] for i in range(k)]
            for token in (b"powershell.exe", b"pwsh"):
                for pre, post in ((b"x;", b""), (b'cmd /c "', b'" & exit')):
                    inv = token + b"".join(b" " + s for s in sw) + b" -EncodedCommand " + payload
                    data = pre + inv + post
                    start = len(pre)
                    rec.mark("states", 0, True)
                    check_ps(rec, data, start, ps_expected_enc(data, start, start + len(inv), token, [s.replace(b"/", b"-") for s in sw], payload),
                             {"kind": "ps-enc", "data": data, "start": start, "end": start + len(inv), "token_len": len(token), "switches": [s.replace(b"/", b"-") for s in sw], "payload": payload}, len(data))
                    n += 1
        rec.sample({"family": "ps-switch-ladder", "switch_counts": "0..70 + ladder to 1025", "cases": n})
    elif kind == "ps-codepoints":
        # EVERY code point of the Basic Multilingual Plane (surrogates excepted) inside the encoded script: the value is the UTF-16 decoding, no more
        n = 0
        for cp in range(0x20 + unit[1], 0x10000, unit[2]):
            if 0xD800 <= cp <= 0xDFFF:
                continue
            script = "W " + chr(cp) + "h" + chr(cp)
            payload = base64.b64encode(script.encode("utf-16le"))
            for token, sw in ((b"powershell", []), (b"pwsh", [b"-nop"])):
                inv = token + b"".join(b" " + s for s in sw) + b" -enc " + payload
                data = b"x;" + inv
                rec.mark("states", 0, True)
                check_ps(rec, data, 2, ps_expected_enc(data, 2, len(data), token, sw, payload),
                         {"kind": "ps-enc", "data": data, "start": 2, "end": len(data), "token_len": len(token), "switches": sw, "payload": payload}, len(data))
                n += 1
        rec.sample({"family": "ps-codepoints", "part": unit[1], "cases": n})
    elif kind == "ps-multi":
        n = 0
        for data, start, exp, w in ps_multi_cases(unit[1], unit[2]):
            rec.mark("states", (data, start), True)
            check_ps(rec, data, start, exp, w, len(data))
            n += 1
        rec.sample({"family": "ps-multi", "first": list(map(str, MULTI_INV[unit[2]][:2])), "cases": n, "last": data})
    elif kind == "ps-far":
        hi = 2200 if unit[1] == "quick" else 9000
        n = 0
        for dist in range(unit[2], hi, 8):
            filler = b"A" * dist
            for (o, c), inner in itertools.product(((b"('", b"')"), (b'"', b'"'), (b"'", b"'")), (b" -nop -c write-host 'hi' ; exit", b' -c echo "x" y', b" -c ls")):
                if c in inner and c != b"')":
                    continue
                pre = b"for /f %a in " + o + b"echo " + filler + b" & "
                data = pre + b"powershell" + inner + c + b" do echo %a"
                start = len(pre)
                end = start + len(b"powershell" + inner)
                raw = data[start:end]
                de = shell_ref.strip_ref(raw)
                exp = ("shell.powershell", de, "unescape.shell.carets" if de != raw else "", start, end, [])
                n += 1
                check_ps(rec, data, start, exp, {"kind": "ps-plain", "data": data, "start": start, "end": end}, len(data))
        rec.sample({"family": "ps-far", "distances": f"{unit[2]}..{hi} step 8", "cases": n})
    elif kind == "stream":
        streams.run_unit(unit[1], rec, stream_monitor)


def replay(w, rec):
    k = w.get("kind")
    if k == "carets":
        check_carets(rec, w["data"])
    elif k == "cmd":
        check_cmd(rec, w["data"], w, len(w["data"]))
    elif k == "cmd-in-scan":
        check_cmd(rec, w["searched"], w, len(w["data"]))
    elif k == "ps-enc":
        data, start, end = w["data"], w["start"], w["end"]
        token = data[start : start + w["token_len"]]
        check_ps(rec, data, start, ps_expected_enc(data, start, end, token, w["switches"], w["payload"]), w, len(data))
    elif k == "ps-plain":
        data, start, end = w["data"], w["start"], w["end"]
        raw = data[start:end]
        de = shell_ref.strip_ref(raw)
        check_ps(rec, data, start, ("shell.powershell", de, "unescape.shell.carets" if de != raw else "", start, end, []), w, len(data))
    elif k == "ps-multi":
        for data, start, exp, w2 in ps_multi_cases(w["tier"], w["first"]):
            if data == w["data"] and start == w["start"]:
                check_ps(rec, data, start, exp, w2, len(data))
                break
