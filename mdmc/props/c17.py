"""C17  Keyword search reports exactly the delimited, case-insensitive occurrences."""
from __future__ import annotations

import itertools
import os
import re
import shutil
import tempfile

from multidecoder.keyword import find_keywords
from multidecoder.registry import build_registry

from mdmc import core

ID = "C17"
TITLE = "Keyword search reports exactly the delimited, case-insensitive occurrences"

ALPHA = [b"a", b"A", b"b", b"1", b".", b" ", b"\xe9"]
DATA_LEN = {"quick": 6, "thorough": 7}
ALNUM = set(b"abcdefghijklmnopqrstuvwxyzABCDEFGHIJKLMNOPQRSTUVWXYZ0123456789")


def describe(tier):
    return {
        "rule": (
            f"data = EVERY string of length <= {DATA_LEN[tier]} over {[a.decode('latin-1') for a in ALPHA]}; keyword lists = every single keyword of length 1-2 over "
            "the same alphabet, every ordered pair of them drawn from a 14-keyword menu (prefixes of one another, case variants, duplicates), and all "
            "length-3 keywords over {a,A,.}; each (list, data) is given to find_keywords and compared, as a complete list of (start, end, value, "
            "label, type) per keyword, with a reference: leftmost non-overlapping case-insensitive literal search (re.finditer on the escaped keyword) + "
            "ASCII-alphanumeric neighbour filter + MixedCase truth table from the statement. Keywords next to / inside alphanumeric runs whose length runs over the boundary ladder (0..5000, thorough ..70000). EVERY pair of byte values (65536) immediately before and immediately after an occurrence of 3 keywords (thorough: 3-byte neighbourhoods over 48 interesting bytes). The data given as one bytearray refilled in place between searches (every pair of contents <= 3 bytes x 3 keyword lists). Every ordered pair of the 14-keyword menu passed as each of 11 kinds of iterable (tuple, iterator, generator, map, dict views, reversed, set, frozenset, filter, chain). A generated keyword directory (CRLF, blank lines, nested "
            "dir, duplicates) is also loaded through build_registry and its searchers compared on the same data. states = distinct (keyword list, data) "
            "pairs, transitions = keyword occurrences examined by the reference, traces = calls compared. Non-trivial = a pair with >= 1 expected hit."
        ),
        "bounds": {"alphabet": [a.decode("latin-1") for a in ALPHA], "max_data_len": DATA_LEN[tier]},
        "assumptions": ["Python's re module as the definition of leftmost non-overlapping literal search",
                        "upper/lower case means ASCII letters (bytes.isupper / islower semantics of the statement's 'all upper- / all lower-case')"],
        "exhaustive": True,
    }


def keywords_1_2():
    return [b"".join(k) for L in (1, 2) for k in itertools.product(ALPHA, repeat=L)]


PAIR_MENU = [b"a", b"A", b"aa", b"aA", b"Aa", b"ab", b"a.", b".a", b"1", b"a1", b" ", b"a a", b"\xe9", b"b"]


# find_keywords(label, keywords: Iterable[bytes], data): every kind of iterable a caller can pass, including single-use ones
ITERABLE_KINDS = [
    ("tuple", tuple), ("iterator", iter), ("generator", lambda k: (x for x in k)), ("map", lambda k: map(bytes, k)), ("dict-keys", lambda k: dict.fromkeys(k).keys()),
    ("reversed", lambda k: reversed(k[::-1])), ("frozenset", frozenset), ("set", set), ("filter", lambda k: filter(None, k + [b""])),
    ("chain", lambda k: itertools.chain(k[:1], k[1:])), ("dict-values", lambda k: {i: x for i, x in enumerate(k)}.values()),
]


def plan(tier, seed):
    units = [("single", tier, i) for i in range(len(keywords_1_2()))]
    units += [("pair", tier, i) for i in range(len(PAIR_MENU))]
    units += [("triple", tier)]
    units += [("registry", tier), ("runs", tier)]
    units += [("neigh", tier, hi) for hi in range(0, 256, 16)]
    units += [("iterables", tier, k) for k in range(len(ITERABLE_KINDS))] + [("buffer", tier, i) for i in range(len(ALPHA))]
    units += core.interp_axis([("triple", tier), ("registry", tier), ("neigh", tier, 80)])
    return units


def ref_hits(label, kw, data):
    out = []
    if not kw:
        return out
    for m in re.finditer(re.escape(kw), data, re.I):
        s, e = m.span()
        if (s == 0 or data[s - 1] not in ALNUM) and (e == len(data) or data[e] not in ALNUM):
            raw = data[s:e]
            mixed = (not raw.isupper() and not raw.islower()) and _case_differs(kw, raw)
            out.append((label, kw, "MixedCase" if mixed else "", s, e))
    return out


def _case_differs(kw, raw):
    """'differs in letter case from the listed keyword': some position holds the same letter in the other case."""
    return any(a != b for a, b in zip(kw, raw))


def datas(maxlen):
    for L in range(0, maxlen + 1):
        for d in itertools.product(ALPHA, repeat=L):
            yield b"".join(d)


def check(rec, label, kws, data, fn=None, w=None):
    rec.count("evaluations")
    w = w or {"kind": "kw", "label": label, "keywords": list(kws), "data": data}
    size = len(data) * 10 + sum(len(k) for k in kws)
    ok, hits = rec.guard("C17.total", w, size, fn or (lambda d: find_keywords(label, kws, d)), data)
    if not ok:
        return
    rec.count("traces")
    got = [(h.type, h.value, h.obfuscation, h.start, h.end) for h in hits]
    exp = []
    for kw in kws:
        exp.extend(ref_hits(label, kw, data))
    rec.count("transitions", len(exp) + 1)
    if exp:
        rec.mark("nontrivial", (tuple(kws), data))
    if sorted(got) != sorted(exp):
        g, e = set(got), set(exp)
        if len(got) != len(set(got)) and g == e:
            cause = "duplicate-hits"
        elif g - e and not (e - g):
            cause = "extra-hit"
        elif e - g and not (g - e):
            cause = "missing-hit"
        else:
            diffs = [(x, y) for x in g - e for y in e - g if x[3:] == y[3:]]
            cause = "label" if diffs and all(x[2] != y[2] and x[:2] == y[:2] for x, y in diffs) else ("value-or-type" if diffs else "span")
        rec.violation("C17.hits", f"keyword-hits|{cause}", w,
                      f"find_keywords({label!r}, {list(kws)!r}, {data!r}) = {core.short(got, 200)}; expected {core.short(exp, 200)} ({cause})", size)


def run_unit(unit, rec):
    kind, tier = unit[0], unit[1]
    maxlen = DATA_LEN[tier]
    if kind == "single":
        kw = keywords_1_2()[unit[2]]
        for data in datas(maxlen):
            rec.mark("states", (kw, data), True)
            check(rec, "lbl", [kw], data)
        rec.sample({"keywords": [kw], "last_data": data})
    elif kind == "pair":
        k1 = PAIR_MENU[unit[2]]
        for k2 in PAIR_MENU:
            for data in datas(maxlen - 1):
                rec.mark("states", (k1, k2, data), True)
                check(rec, "file.name", [k1, k2], data)
        rec.sample({"keywords": [k1, k2], "last_data": data})
    elif kind == "triple":
        for kw in (b"".join(k) for k in itertools.product([b"a", b"A", b"."], repeat=3)):
            for data in datas(maxlen):
                rec.mark("states", (kw, data), True)
                check(rec, "t", [kw], data)
        rec.sample({"keywords": [kw], "last_data": data})
    elif kind == "runs":
        kws = [b"VirtualAlloc", b"cmd", b"a", b"user-agent", b"a b", b"Q" * 64, b"x" * 65]
        for n in core.ladder(0, 5000 if tier == "quick" else 70000):
            for fill in (b"Q", b"7", b"q"):
                run = fill * n
                for kw in kws:
                    for data in (run + kw, kw + run, run + b" " + kw + b"." + run, run + kw + run, run + b"-" + kw.upper() + b"-" + run):
                        rec.mark("states", 0, True)
                        check(rec, "api", [kw], data)
        rec.sample({"keywords": kws, "run_lengths": core.ladder(0, 5000)[-6:]})
    elif kind == "buffer":
        # data given as ONE bytearray that the caller refills in place between searches, and as memoryview-free bytes-like objects
        first = ALPHA[unit[2]]
        n = 0
        kwsets = ([b"a"], [b"ab", b"A."], [b"a", b"aa", b"1"])
        for kws in kwsets:
            for x in (first + d for d in datas(2)):
                buf = bytearray(x)
                check(rec, "api", kws, bytes(x), fn=lambda d, kws=kws, buf=buf: find_keywords("api", kws, buf))
                for y in datas(3):
                    buf[:] = y
                    rec.mark("states", 0, True)
                    check(rec, "api", kws, y, fn=lambda d, kws=kws, buf=buf: find_keywords("api", kws, buf),
                          w={"kind": "kw-buffer", "keywords": list(kws), "before": x, "data": y})
                    n += 1
        rec.sample({"family": "reused-bytearray", "first": first, "cases": n})
    elif kind == "iterables":
        name, make = ITERABLE_KINDS[unit[2]]
        n = 0
        for k1 in PAIR_MENU:
            for k2 in PAIR_MENU:
                kws = [k1, k2] if k1 != k2 else [k1]
                for data in datas(maxlen - 2):
                    rec.mark("states", 0, True)
                    check(rec, "file.name", kws, data, fn=lambda d, kws=kws: find_keywords("file.name", make(list(kws)), d),
                          w={"kind": "kw-iterable", "iterable": unit[2], "keywords": list(kws), "data": data})
                    n += 1
        rec.sample({"family": "iterable-kinds", "kind": name, "cases": n})
    elif kind == "neigh":
        # EVERY pair of byte values immediately before, and immediately after, an occurrence (only the ASCII-alphanumeric status of the one
        # adjacent byte may matter: escapes, high bytes, control bytes and what precedes them must not)
        n = 0
        interesting = [bytes([c]) for c in b"\\nrt01aZ_-./ \x00\n\r\t\xe9\xff%&;:'\"()[]{}<>^`$#@!?*+=,|~"]
        for b1 in range(unit[2], unit[2] + 16):
            for b2 in range(256):
                two = bytes([b1, b2])
                for kw in (b"a", b"ab", b"a.b"):
                    for data in (two + kw, two + kw.upper() + b" ", kw + two, b" " + kw + two, two + kw + two):
                        rec.mark("states", 0, True)
                        check(rec, "api", [kw], data)
                        n += 1
            if tier == "thorough":
                for x in interesting:
                    for y in interesting:
                        three = bytes([b1]) + x + y
                        for data in (three + b"ab", b"ab" + three[::-1]):
                            rec.mark("states", 0, True)
                            check(rec, "api", [b"ab"], data)
                            n += 1
        rec.sample({"family": "every-2-byte-neighbourhood", "first_bytes": [unit[2], unit[2] + 15], "cases": n})
    elif kind == "registry":
        d = tempfile.mkdtemp(prefix="c17kw")
        try:
            os.makedirs(os.path.join(d, "sub"))
            os.makedirs(os.path.join(d, "other"))
            with open(os.path.join(d, "other", "api"), "wb") as f:  # same file name as sub/api: two lists, both must be searched
                f.write(b"b1\nA.\n")
            with open(os.path.join(d, "vba.name"), "wb") as f:
                f.write(b"aA\r\na\r\n\r\n1.\r\n")
            with open(os.path.join(d, "sub", "api"), "wb") as f:
                f.write(b"Aa\nab\n\nAa\n")
            reg = build_registry(d, include=["xml"])
            searchers = [s for s in reg if getattr(s, "func", None) is not None]
            want = {"vba.name": [b"aA", b"a", b"1."], "api": [b"Aa", b"ab"]}
            want_lists = {"vba.name": [[b"aA", b"a", b"1."]], "api": [[b"Aa", b"ab"], [b"b1", b"A."]]}
            if sorted(s.args[0] for s in searchers) != sorted(k for k, v in want_lists.items() for _ in v):
                rec.violation("C17.registry", "searchers", {"kind": "registry"}, f"keyword searchers built: {[s.args[0] for s in searchers]}", 1)
            for s in searchers:
                label = s.args[0]
                for data in datas(maxlen - 1):
                    rec.mark("states", (label, data), True)
                    mine = [lst for lst in want_lists.get(label, []) if sorted(lst) == sorted(s.args[1])]
                    check(rec, label, mine[0] if mine else [], data, fn=s)
            rec.sample({"registry_dir": sorted(want), "last_data": data})
        finally:
            shutil.rmtree(d, ignore_errors=True)


def replay(w, rec):
    if w.get("kind") == "kw-buffer":
        buf = bytearray(w["before"])
        kws = w["keywords"]
        find_keywords("api", kws, buf)
        buf[:] = w["data"]
        check(rec, "api", kws, w["data"], fn=lambda d: find_keywords("api", kws, buf), w=w)
    elif w.get("kind") == "kw-iterable":
        make = ITERABLE_KINDS[w["iterable"]][1]
        check(rec, "file.name", w["keywords"], w["data"], fn=lambda d: find_keywords("file.name", make(list(w["keywords"])), d), w=w)
    elif w.get("kind") == "kw":
        check(rec, w["label"], w["keywords"], w["data"])
    else:
        run_unit(("registry", "quick"), rec)
