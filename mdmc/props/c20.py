"""C20  JSON serialisation is lossless and the CLI reports exactly the library's tree."""
from __future__ import annotations

import codecs
import io
import json
import os
import shutil
import subprocess
import sys
import tempfile

from multidecoder import json_conversion as jc
from multidecoder.multidecoder import Multidecoder
from multidecoder.node import Node
from multidecoder.registry import build_registry

from mdmc import core, families, trees
from mdmc.engines import streams, treex
from mdmc.refs import flatten_ref as fr

ID = "C20"
TITLE = "JSON serialisation is lossless and the CLI reports exactly the library's tree"

ALPHA = (b"a", b'"', b"\x00")
LABELS = ["", "x", "vba.string", "é/>\"\\\n", "☃", "a b", ">", "k\udcff", "\U0001f600", "\x00\x7f"]
BLOCKS = {
    "quick": [dict(maxlen=2, maxk=2, depth=1, gk=1, types=("", "s"), gtypes=("",))],
    "thorough": [dict(maxlen=3, maxk=2, depth=1, gk=1, types=("", "s", "x"), gtypes=("", "s"))],
}
STREAM_FAMS = ["mix", "net"]

CLI_INPUTS = [
    b"",
    b"plain text, nothing to see\n",
    b"\x00\xff\xfe binary \x80\x81 http://example.com/a.exe \x00",
    b"aHR0cDovL2V4YW1wbGUuY29tL2EuZXhlIDguOC40LjQ= and 8.8.4.4",
    b'x = "http://exa" + "mple.com/a"; strlen StrLen',
    b"cmd /c p^owershell -e ZQBjAGgAbwAgAGIAZQBlAA==",
    b"Y21kIC9jIGVjaG8gaHR0cDovL2V4YW1wbGUuY29tL2E= line\nsecond 'line' with \"quotes\" and \\ backslash",
    b"&#104;&#116;&#116;&#112;&#58;&#47;&#47;&#97;&#46;&#99;&#111;&#109; reverse('moc.elpmaxe//:ptth')",
    b"bob@example.org \\\\a.com\\share\\x.exe CreateObject(\"WScript.Shell\")",
    b"h\x00t\x00t\x00p\x00:\x00/\x00/\x00a\x00.\x00c\x00o\x00m\x00/\x00x\x00",
    b"687474703a2f2f6578616d706c652e636f6d2f61 FromBase64String('R1ZASA==') -bxor 35",
    bytes(range(256)),
    b"x = chr(72)chr(105)\n",
    b"x = PROVIDER; y = Docs and strLEN\n",
    b'StrReverse("dc")StrReverse("ba") chr(65)\'b\'+\'c\'',
]


def describe(tier):
    return {
        "rule": (
            "JSON: EVERY tree of E3 treex blocks (root value over {a,\",NUL}, all interval/children/grandchild combinations), plus structured families: every "
            "byte value 0..255 in a node value, awkward type/label strings (non-ASCII, quote, backslash, newline, '/', '>'), linear chains of depth 1..200, and every "
            "scan tree of the mix/net scan-level families. Oracle: tree_to_json is valid JSON whose objects carry type/value(hex)/obfuscation/start/end/children for "
            "every node; json_to_tree(tree_to_json(t)) == t with correct parent links; trees in which one Node object is referenced from several places (11 shapes: a leaf / sub-tree / parent reused under 2-3 parents, in one list, at two depths) compared in both operand orders with every independent tree that differs in one field of one node; for every tree with <= 6 nodes EVERY single-field mutation of EVERY node (trees with <= 4 nodes also rebuilt from two Node subclasses, one with and one without __slots__) "
            "(type, value, obfuscation, start, end, child added/removed) and every re-nesting that keeps the pre-order sequence (children promoted to siblings, sibling nested under its predecessor) makes the trees unequal. CLI: main() driven in-process for ALL combinations of "
            "{file argument, stdin} x {default, --json, --replace} x {shipped keywords, --keywords fixture directory, --keywords non-directory} x 12 inputs, plus real "
            "`python -m multidecoder` subprocesses for each mode with the bytes supplied as regular file, symbolic link, relative path, path with blanks, named pipe, /dev/stdin, /proc/self/fd/0 and plain standard input. Oracle: --json == tree_to_json(Multidecoder(same registry).scan(bytes)); default = one line per "
            "node in pre-order, label part = ancestor type/>obfuscation chain, value part decodes back to the node value; --replace == flatten() when no "
            "substituted results overlap. states = distinct trees / CLI configurations, transitions = nodes compared, traces = round trips / CLI runs compared."
        ),
        "bounds": {"tree_blocks": BLOCKS[tier], "labels": LABELS, "cli_inputs": len(CLI_INPUTS), "chain_depths": "1..200"},
        "assumptions": ["the CLI's registry is rebuilt by the oracle with the same arguments (build_registry is deterministic: C09/C18)"],
        "exhaustive": True,
    }


def plan(tier, seed):
    units = []
    for bi, blk in enumerate(BLOCKS[tier]):
        for rv in treex.root_values(ALPHA, blk["maxlen"]):
            units.append(("tree", tier, bi, rv, None))
            for iv in treex.intervals(len(rv)):
                units.append(("tree", tier, bi, rv, iv))
    units += [("bytes",), ("labels",), ("chains",), ("alias",)]
    units += [("stream", u) for u in streams.plan(tier, fams=STREAM_FAMS, lite=1)]
    for src in ("file", "stdin"):
        for mode in ("default", "--json", "--replace", "-j", "-r"):
            for kw in ("shipped", "fixture", "nondir"):
                if mode.startswith("-") and len(mode) == 2 and kw == "shipped":
                    continue  # short flags are exercised with the cheap keyword options only
                units.append(("cli", src, mode, kw))
    units += [("subprocess", mode) for mode in ("default", "--json", "--replace")]
    units += [("encodings", enc) for enc in ("utf-8", "latin-1", "ascii", "cp1252")]
    return units


# ---- JSON ---------------------------------------------------------------------------------------------------

FIELDS = ("type", "value", "obfuscation", "start", "end", "children")


def json_matches(obj, node):
    if not isinstance(obj, dict) or set(obj) != set(FIELDS):
        return f"object keys {sorted(obj) if isinstance(obj, dict) else type(obj).__name__}"
    if obj["type"] != node.type or obj["obfuscation"] != node.obfuscation or obj["start"] != node.start or obj["end"] != node.end:
        return "type/obfuscation/start/end differ"
    if obj["value"] != node.value.hex():
        return "value is not the hex of the node value"
    if not isinstance(obj["children"], list) or len(obj["children"]) != len(node.children):
        return "children count"
    for o, c in zip(obj["children"], node.children):
        r = json_matches(o, c)
        if r:
            return r
    return None


def parents_ok(root):
    if root.parent is not None:
        return False
    for n in [root] + trees.walk(root):
        for c in n.children:
            if c.parent is not n:
                return False
    return True


class ScoredNode(Node):
    """A caller's Node subclass that adds a field the natural way for a slotted class."""

    __slots__ = ("score",)


class TaggedNode(Node):
    """A caller's Node subclass without __slots__ (instances get a __dict__)."""


def as_subclass(cls, n):
    m = cls(n.type, n.value, n.obfuscation, n.start, n.end, children=[as_subclass(cls, c) for c in n.children])
    if cls is ScoredNode:
        m.score = 1
    else:
        m.tag = "t"
    return m


def _eq(rec, a, b, w, size):
    """a == b, where raising counts as a finding of its own (equality of trees is total)."""
    try:
        return bool(a == b) and bool(b == a)
    except Exception as e:  # noqa: BLE001
        rec.violation("C20.eq.structural", f"eq-raises|{type(e).__name__}", w, f"comparing two trees raised {type(e).__name__}: {e}", size)
        return False


def alias_shapes():
    """Trees in which ONE Node object is referenced from several places (an expected tree written with a reused leaf / sub-tree):
    equality is structural, so such a tree equals exactly the independent trees with the same fields everywhere."""
    def leaf():
        return Node("t", b"v", "o", 0, 1)

    def par(name, kids):
        return Node(name, b"vv", "", 0, 2, children=kids)
    out = []
    for k in (2, 3):
        L = leaf()
        out.append((f"leaf-under-{k}-parents", par("", [par("p", [L]) for _ in range(k)])))
        L = leaf()
        out.append((f"leaf-{k}-times-in-one-list", par("", [L] * k)))
        S = par("s", [leaf()])
        out.append((f"subtree-under-{k}-parents", par("", [par("p", [S]) for _ in range(k)])))
    L = leaf()
    out.append(("leaf-at-two-depths", par("", [par("p", [L]), L])))
    L = leaf()
    out.append(("leaf-at-two-depths-reversed", par("", [L, par("p", [L])])))
    P = par("p", [leaf()])
    out.append(("same-parent-twice", par("", [P, P])))
    return out


def run_alias(rec):
    n = 0
    for name, shared in alias_shapes():
        spec = trees.tup(shared)
        for i in range(-1, len(trees.walk(trees.mknode(spec)))):
            for fld in ("type", "value", "obfuscation", "start", "end", "children") if i >= 0 else (None,):
                other = trees.mknode(spec)
                if i >= 0:
                    node = trees.walk(other)[i]
                    if fld == "children":
                        node.children.append(Node("m", b"m"))
                    else:
                        old = getattr(node, fld)
                        setattr(node, fld, old + (1 if isinstance(old, int) else ("x" if isinstance(old, str) else b"x")))
                expect = trees.tup(other) == spec
                w = {"kind": "alias", "shape": name, "mutated_node": i, "field": fld}
                for order, (a, b) in (("shared == independent", (shared, other)), ("independent == shared", (other, shared))):
                    rec.count("evaluations")
                    rec.count("transitions")
                    rec.mark("states", 0, True)
                    n += 1
                    try:
                        got, ne = bool(a == b), bool(a != b)
                    except Exception as e:  # noqa: BLE001
                        rec.violation("C20.eq.structural", f"eq-raises|{type(e).__name__}", w, f"comparing two trees raised {type(e).__name__}: {e}", 1)
                        continue
                    rec.count("traces")
                    if not expect:
                        rec.mark("nontrivial", 0, True)
                    if got != expect or ne == got:
                        rec.violation("C20.eq.structural", f"eq-with-shared-node|{'false-positive' if got else 'false-negative'}", dict(w, order=order),
                                      f"{order}: tree with a shared node ({name}) vs an independent tree that differs in {fld} of node #{i}: == gives {got}, != gives {ne}, "
                                      f"structural comparison gives {expect}", 1)
    rec.sample({"family": "alias", "shapes": [nm for nm, _ in alias_shapes()], "comparisons": n})


def check_json(rec, root, w, size, mutate=False, _sub=False):
    if mutate and not _sub and len(trees.walk(root)) <= 3:
        # the same tree built from instances of Node subclasses: equality stays structural, the JSON round trip still returns an equal tree
        for cls in (ScoredNode, TaggedNode):
            check_json(rec, as_subclass(cls, root), dict(w, node_class=cls.__name__), size, mutate=True, _sub=True)
    rec.count("evaluations")
    ok, text = rec.guard("C20.json.encode", w, size, jc.tree_to_json, root)
    if not ok:
        return
    try:
        text.encode("utf-8")
    except UnicodeEncodeError as e:
        rec.violation("C20.json.valid", "json-not-utf8-encodable", w, f"tree_to_json produced text that cannot be written as UTF-8 (JSON is UTF-8 text): {e}", size)
        return
    try:
        obj = json.loads(text)
    except ValueError as e:
        rec.violation("C20.json.valid", "invalid-json", w, f"tree_to_json produced invalid JSON: {e}", size)
        return
    r = json_matches(obj, root)
    if r:
        rec.violation("C20.json.fields", "json-fields", w, f"JSON does not record the tree: {r}", size)
    ok, back = rec.guard("C20.json.decode", w, size, jc.json_to_tree, text)
    if not ok:
        return
    rec.count("traces")
    nodes = trees.walk(root)
    rec.count("transitions", len(nodes) + 1)
    if not isinstance(back, Node) or trees.tup(back) != trees.tup(root) or not _eq(rec, back, root, w, size):
        rec.violation("C20.json.roundtrip", "roundtrip-differs", w, f"json_to_tree(tree_to_json(t)) != t: {core.short(trees.tup(back) if isinstance(back, Node) else back, 200)}", size)
    elif not parents_ok(back):
        rec.violation("C20.json.parents", "decoded-parent-links", w, "decoded tree has wrong parent links", size)
    if mutate and len(nodes) <= 5:
        for i, n in enumerate([root] + nodes):
            for fld, alt in (("type", n.type + "x"), ("value", n.value + b"\x00"), ("obfuscation", n.obfuscation + "o"), ("start", n.start + 1), ("end", n.end + 1)):
                old = getattr(n, fld)
                setattr(n, fld, alt)
                same = _eq(rec, back, root, w, size)
                setattr(n, fld, old)
                rec.count("transitions")
                if same:
                    rec.violation("C20.eq.structural", f"eq-ignores-{fld}|{'root' if i == 0 else 'descendant'}", w,
                                  f"changing {fld} of node #{i} leaves the trees equal", size)
            n.children.append(Node("m", b"m"))
            same = _eq(rec, back, root, w, size)
            n.children.pop()
            if same:
                rec.violation("C20.eq.structural", f"eq-ignores-children|{'root' if i == 0 else 'descendant'}", w, f"adding a child to node #{i} leaves the trees equal", size)
            # re-nesting: same nodes in the same pre-order, different shape (children is a field too)
            if n.children and n.children[-1].children:
                c = n.children[-1]
                moved = c.children
                c.children = []
                n.children.extend(moved)  # root -> A -> B   becomes   root -> A, B
                same = _eq(rec, back, root, w, size)
                del n.children[-len(moved):]
                c.children = moved
                rec.count("transitions")
                if same:
                    rec.violation("C20.eq.structural", f"eq-ignores-nesting|{'root' if i == 0 else 'descendant'}", w,
                                  f"promoting the children of node #{i}'s last child to siblings (same pre-order, different nesting) leaves the trees equal", size)
            if len(n.children) >= 2 and not n.children[-2].children:
                a, b = n.children[-2], n.children[-1]
                n.children.pop()
                a.children.append(b)  # root -> A, B   becomes   root -> A -> B
                same = _eq(rec, back, root, w, size)
                a.children.pop()
                n.children.append(b)
                rec.count("transitions")
                if same:
                    rec.violation("C20.eq.structural", f"eq-ignores-nesting|{'root' if i == 0 else 'descendant'}", w,
                                  f"nesting node #{i}'s last child under its previous sibling leaves the trees equal", size)
        if not _eq(rec, back, root, w, size):
            rec.violation("C20.eq.structural", "eq-not-restored", w, "harness: tree not restored after mutation", size)


# ---- CLI -----------------------------------------------------------------------------------------------------


def run_main(argv, stdin_bytes):
    """Drive multidecoder.__main__.main() in-process; returns (stdout bytes, stderr text)."""
    from multidecoder import __main__ as cli

    out = io.BytesIO()
    wrapper = io.TextIOWrapper(out, encoding="utf-8", errors="backslashreplace", write_through=True)
    err = io.StringIO()
    old = sys.argv, sys.stdin, sys.stdout, sys.stderr
    sys.argv = ["multidecoder"] + argv
    sys.stdin = io.TextIOWrapper(io.BytesIO(stdin_bytes))
    sys.stdout = wrapper
    sys.stderr = err
    try:
        cli.main()
        wrapper.flush()
    finally:
        sys.argv, sys.stdin, sys.stdout, sys.stderr = old
    return out.getvalue(), err.getvalue()


def make_label(n):
    items = []
    while n is not None:
        if n.type:
            items.append(n.type)
        if n.obfuscation:
            items.append(">" + n.obfuscation)
        n = n.parent
    return items


def check_cli_output(rec, mode, data, out, tree, w, size):
    mode = {"-j": "--json", "-r": "--replace"}.get(mode, mode)
    rec.count("transitions", len(trees.walk(tree)) + 1)
    if mode == "--json":
        exp = jc.tree_to_json(tree)
        if out.decode("utf-8", "replace").rstrip("\n") != exp:
            rec.violation("C20.cli.json", "cli-json-differs", w, f"--json output differs from tree_to_json(scan): {core.short(out, 120)} vs {core.short(exp, 120)}", size)
    elif mode == "default":
        nodes = trees.walk(tree)
        lines = out.decode("utf-8", "replace").split("\n")
        if lines and lines[-1] == "":
            lines.pop()
        if len(lines) != len(nodes):
            rec.violation("C20.cli.lines", "line-count", w, f"default output has {len(lines)} lines for {len(nodes)} nodes", size)
            return
        for i, (line, n) in enumerate(zip(lines, nodes)):
            label, sep, val = line.partition(" ")
            want = make_label(n)
            got_items = [x for x in label.split("/") if x] if label else []
            # type strings may themselves contain '/', compare as multisets of '/'-separated pieces
            want_items = [y for x in want for y in x.split("/") if y]
            try:
                decoded = codecs.escape_decode(val.encode("latin-1", "backslashreplace"))[0]
            except ValueError:
                decoded = None
            if sorted(got_items) != sorted(want_items) or not sep:
                rec.violation("C20.cli.label", "line-label", w, f"line {i}: label {label!r}, expected the chain {want[::-1]!r}", size)
                return
            if decoded != n.value:
                rec.violation("C20.cli.value", "line-value", w, f"line {i}: value part {val!r} does not decode to the node value {core.short(n.value, 60)}", size)
                return
    elif mode == "--replace":
        kids = fr.spec_of(tree)[5]
        if fr.substituted_overlap(data, kids):
            rec.note("cli --replace: substituted results overlap (outside the statement)")
            return
        exp = tree.flatten()
        if out != exp:
            rec.violation("C20.cli.replace", "replace-differs-from-flatten", w, f"--replace output {core.short(out, 100)} != flatten() {core.short(exp, 100)}", size)


def run_cli_unit(rec, src, mode, kw):
    tmp = tempfile.mkdtemp(prefix="c20cli")
    try:
        if kw == "shipped":
            kwargs, reg = [], None
        elif kw == "fixture":
            kwargs, reg = ["--keywords", families.FIXTURE_KW], build_registry(families.FIXTURE_KW)
        else:
            notdir = os.path.join(tmp, "notadir")
            open(notdir, "w").close()
            kwargs, reg = ["-k", notdir], None
        md = Multidecoder(reg)
        for i, data in enumerate(CLI_INPUTS):
            w = {"kind": "cli", "src": src, "mode": mode, "kw": kw, "input": i}
            argv = ([] if mode == "default" else [mode]) + kwargs
            stdin = b""
            if src == "file":
                path = os.path.join(tmp, f"in{i}.bin")
                with open(path, "wb") as f:
                    f.write(data)
                argv = argv + [path]
            else:
                stdin = data
            rec.count("evaluations")
            rec.mark("states", (src, mode, kw, i), True)
            ok, res = rec.guard("C20.cli.total", w, i, run_main, argv, stdin, limit=60)
            if not ok:
                continue
            rec.count("traces")
            out, err = res
            if kw == "nondir":
                if out or "must be a directory" not in err:
                    rec.violation("C20.cli.keywords", "nondir-not-rejected", w, f"--keywords <file>: stdout {core.short(out, 60)} stderr {core.short(err, 80)}", i)
                continue
            tree = md.scan(data)
            rec.mark("nontrivial", (src, mode, kw, i), bool(tree.children))
            check_cli_output(rec, mode, data, out, tree, w, i)
        rec.sample({"cli": [src, mode, kw], "inputs": len(CLI_INPUTS)})
    finally:
        shutil.rmtree(tmp, ignore_errors=True)


def run_subprocess_unit(rec, mode):
    tmp = tempfile.mkdtemp(prefix="c20sub")
    try:
        env = dict(os.environ)
        md = Multidecoder(build_registry(families.FIXTURE_KW))
        for i in (3, 4, 6):
            data = CLI_INPUTS[i]
            path = os.path.join(tmp, "in.bin")
            with open(path, "wb") as f:
                f.write(data)
            # the FILE argument names bytes, whatever kind of file system object it is: regular file, symbolic link, relative path, path with
            # blanks, named pipe, /dev/stdin, /proc/self/fd/0
            for src in ("file", "file, stdin closed", "file, stdout is a pipe closed early", "stdin", "symlink", "relative", "blank-in-name", "fifo", "/dev/stdin", "/proc/self/fd/0"):
                argv = [sys.executable, "-m", "multidecoder"] + ([] if mode == "default" else [mode]) + ["--keywords", families.FIXTURE_KW]
                w = {"kind": "subprocess", "mode": mode, "src": src, "input": i}
                rec.count("evaluations")
                rec.mark("states", ("sub", mode, src, i), True)
                if src == "file":
                    r = subprocess.run(argv + [path], capture_output=True, env=env, timeout=120)
                elif src == "file, stdin closed":
                    # a FILE argument in a process started without standard input (daemon, service manager, `cmd <&-`): sys.stdin is None
                    r = subprocess.run(argv + [path], capture_output=True, env=env, timeout=120, preexec_fn=lambda: os.close(0))
                elif src == "file, stdout is a pipe closed early":
                    continue  # (the reader going away is the reader's doing; listed for completeness, not asserted)
                elif src == "symlink":
                    link = os.path.join(tmp, "link.bin")
                    if not os.path.islink(link):
                        os.symlink(path, link)
                    r = subprocess.run(argv + [link], capture_output=True, env=env, timeout=120)
                elif src == "relative":
                    r = subprocess.run(argv + ["in.bin"], capture_output=True, env=env, timeout=120, cwd=tmp)
                elif src == "blank-in-name":
                    p2 = os.path.join(tmp, "in put (1).bin")
                    shutil.copyfile(path, p2)
                    r = subprocess.run(argv + [p2], capture_output=True, env=env, timeout=120)
                elif src == "fifo":
                    import threading

                    fifo = os.path.join(tmp, f"pipe{i}")
                    if not os.path.exists(fifo):
                        os.mkfifo(fifo)

                    def feed(fifo=fifo, data=data):
                        fd = os.open(fifo, os.O_WRONLY)  # returns once a reader has opened the pipe
                        try:
                            os.write(fd, data)
                        finally:
                            os.close(fd)

                    t = threading.Thread(target=feed, daemon=True)
                    t.start()
                    r = subprocess.run(argv + [fifo], capture_output=True, env=env, timeout=120)
                    if t.is_alive():  # the command never opened the pipe: release the writer
                        rfd = os.open(fifo, os.O_RDONLY | os.O_NONBLOCK)
                        t.join(5)
                        os.close(rfd)
                elif src in ("/dev/stdin", "/proc/self/fd/0"):
                    r = subprocess.run(argv + [src], input=data, capture_output=True, env=env, timeout=120)
                else:
                    r = subprocess.run(argv, input=data, capture_output=True, env=env, timeout=120)
                if r.returncode != 0:
                    rec.violation("C20.cli.total", "subprocess-failed", w, f"python -m multidecoder exited {r.returncode}: {core.short(r.stderr, 200)}", i)
                    continue
                rec.count("traces")
                rec.mark("nontrivial", ("sub", mode, src, i), True)
                check_cli_output(rec, mode, data, r.stdout, md.scan(data), w, i)
        rec.sample({"subprocess": mode})
    finally:
        shutil.rmtree(tmp, ignore_errors=True)


def run_encodings_unit(rec, enc):
    """--json through a real process whose stdout uses `enc`, with a keyword directory whose file names are not ASCII: the output must still
    be the encoding of the library's tree."""
    tmp = tempfile.mkdtemp(prefix="c20enc")
    try:
        names = ["\u043a\u043b\u044e\u0447", "caf\u00e9.name", "plain"]
        for i, nme in enumerate(names):
            with open(os.path.join(tmp, nme), "wb") as f:
                f.write(b"word%d\nWord%d\n" % (i, i))
        data = b"see word0 and WORD1 and word2 here"
        md = Multidecoder(build_registry(tmp))
        exp = jc.tree_to_json(md.scan(data))
        for src in ("file", "stdin"):
            env = dict(os.environ, PYTHONIOENCODING=enc)
            argv = [sys.executable, "-m", "multidecoder", "--json", "--keywords", tmp]
            w = {"kind": "encodings", "encoding": enc, "src": src}
            rec.count("evaluations")
            rec.mark("states", ("enc", enc, src), True)
            path = tmp + ".in"  # outside the keyword directory
            with open(path, "wb") as f:
                f.write(data)
            r = subprocess.run(argv + [path], capture_output=True, env=env, timeout=120) if src == "file" else subprocess.run(argv, input=data, capture_output=True, env=env, timeout=120)
            rec.count("traces")
            rec.mark("nontrivial", ("enc", enc, src), True)
            if r.returncode != 0:
                rec.violation("C20.cli.total", f"cli-fails-under-stdout-encoding|{enc}", w, f"python -m multidecoder --json with stdout encoding {enc} exited {r.returncode}: {core.short(r.stderr, 200)}", 1)
                continue
            try:
                got = json.loads(r.stdout.decode(enc))
            except (ValueError, UnicodeDecodeError) as e:
                rec.violation("C20.cli.json", f"cli-json-invalid-under-encoding|{enc}", w, f"--json output under stdout encoding {enc} is not JSON: {e}", 1)
                continue
            if got != json.loads(exp):
                rec.violation("C20.cli.json", f"cli-json-differs-under-encoding|{enc}", w, "--json output differs from tree_to_json(scan)", 1)
        rec.sample({"stdout_encoding": enc, "keyword_file_names": names})
    finally:
        shutil.rmtree(tmp, ignore_errors=True)
        if os.path.exists(tmp + ".in"):
            os.unlink(tmp + ".in")


def stream_monitor(rec, case):
    check_json(rec, case.tree, case.witness(), case.size, mutate=True)
    if case.tree.children:
        rec.mark("nontrivial", case.data)


def run_unit(unit, rec):
    kind = unit[0]
    if kind == "tree":
        _, tier, bi, rv, first = unit
        b = BLOCKS[tier][bi]
        if first is None:
            check_json(rec, treex.mk(("", rv, "", 0, len(rv), [])), {"kind": "tree", "spec": ["", rv, "", 0, len(rv), []]}, 0, mutate=True)
            rec.mark("states", 0, True)
            return
        n = 0
        for kids in treex.child_lists(rv, b["depth"], b["maxk"], b["types"], b["gk"], b["gtypes"], first=first):
            spec = ("", rv, "", 0, len(rv), kids)
            n += 1
            rec.mark("states", 0, True)
            rec.mark("nontrivial", 0, True)
            check_json(rec, treex.mk(spec), {"kind": "tree", "spec": spec}, len(rv) * 10 + n % 7, mutate=True)
        rec.sample({"root_value": rv, "first_child_interval": list(first), "trees": n})
    elif kind == "bytes":
        for v in range(256):
            for spec in (("", bytes([v]), "", 0, 1, []), ("", b"ab", "", 0, 2, [("t", bytes([v, v]), "o", 0, 1, [])])):
                rec.mark("states", 0, True)
                rec.mark("nontrivial", 0, True)
                check_json(rec, treex.mk(spec), {"kind": "tree", "spec": spec}, 2, mutate=True)
        rec.sample({"family": "every byte value"})
    elif kind == "labels":
        for t in LABELS:
            for o in LABELS:
                spec = (t, b"v", o, 0, 1, [(o, b"w", t, 0, 1, [])])
                rec.mark("states", 0, True)
                rec.mark("nontrivial", 0, True)
                check_json(rec, treex.mk(spec), {"kind": "tree", "spec": spec}, 3, mutate=True)
        for s, e in ((-1, 0), (5, 2), (0, 10**12), (2**63, 2**64)):
            spec = ("", b"v", "", 0, 1, [("t", b"w", "", s, e, [])])
            rec.mark("states", 0, True)
            check_json(rec, treex.mk(spec), {"kind": "tree", "spec": spec}, 3)
        rec.sample({"family": "awkward labels and spans", "labels": LABELS})
    elif kind == "alias":
        run_alias(rec)
    elif kind == "chains":
        for depth in range(1, 201):
            spec = ("leaf", b"x", "", 0, 1, [])
            for d in range(depth):
                spec = ("t%d" % d, b"xy", "o", 0, 1, [spec])
            rec.mark("states", 0, True)
            rec.mark("nontrivial", 0, True)
            check_json(rec, treex.mk(spec), {"kind": "chain", "depth": depth}, 1000 + depth)
        rec.sample({"family": "chains", "depths": "1..200"})
    elif kind == "stream":
        streams.run_unit(unit[1], rec, stream_monitor)
    elif kind == "cli":
        run_cli_unit(rec, unit[1], unit[2], unit[3])
    elif kind == "subprocess":
        run_subprocess_unit(rec, unit[1])
    elif kind == "encodings":
        run_encodings_unit(rec, unit[1])


def replay(w, rec):
    k = w.get("kind")
    if k == "tree":
        def tospec(c):
            return (c[0], c[1], c[2], c[3], c[4], [tospec(g) for g in c[5]])
        check_json(rec, treex.mk(tospec(w["spec"])), w, 0, mutate=True)
    elif k == "chain":
        spec = ("leaf", b"x", "", 0, 1, [])
        for d in range(w["depth"]):
            spec = ("t%d" % d, b"xy", "o", 0, 1, [spec])
        check_json(rec, treex.mk(spec), w, 0)
    elif k == "alias":
        run_alias(rec)
    elif k == "cli":
        run_cli_unit(rec, w["src"], w["mode"], w["kw"])
    elif k == "subprocess":
        run_subprocess_unit(rec, w["mode"])
    elif k == "encodings":
        run_encodings_unit(rec, w["encoding"])
    elif w.get("engine") == "stream":
        streams.replay(w, rec, stream_monitor)
