"""C12  URL and Windows-path parts index into, and decode from, their parent's value."""
from __future__ import annotations

import ipaddress
import itertools

from multidecoder.decoders import network, path as mdpath
from multidecoder.domains import TOP_LEVEL_DOMAINS

from mdmc import core, trees
from mdmc.engines import streams
from mdmc.refs import url_ref

ID = "C12"
TITLE = "URL and Windows-path parts index into, and decode from, their parent's value"

SCHEMES = [b"http", b"HTTP", b"hTtp", b"https", b"ftp"]
USERINFO = [b"", b"u@", b"u:p@", b":p@", b"u:@", b"u:p:q@", b"%41b@", b"u%40x:p%3A@", b"a@b@", b"u:p@q@", b"@@"]
HOSTS = [b"example.com", b"ex%61mple.com", b"8.8.4.4", b"0x7f.1", b"2130706433", b"%31.1.1.1", b"[::1]", b"[0:0:0:0:0:0:0:1]", b"%5B::1%5D",
         b"a-b.example.org", b"010.1.1.1", b"EXAMPLE.COM", b"[::ffff:1.2.3.4]", b"%5%42ad.example.com", b"%%35Bx.com", b"[fe80::1%2511]", b"[::1%25a]"]
PORTS = [b"", b":", b":80", b":65535", b":00080"]
SEGS = [b"a", b".", b"..", b"%2e", b"%2E%2e", b"%2F", b"%41", b"", b"b%3Fc", b"%2%45%2%65", b"%2%65"]
QUERIES = [b"", b"?", b"?q=%41", b"?a/b?c%2Fd"]
FRAGS = [b"", b"#", b"#f%41", b"#/route#anchor", b"#a?b#c%41"]
EMBED = [(b"", b""), (b"see '", b"' now"), (b"x(", b") y"), (b"\x01\x02", None)]

WIN_PREFIX = [b"C:\\", b"C:", b"\\", b"", b"\\\\host\\sh\\", b"\\\\1.2.3.4@SSL@80\\sh\\", b"\\\\a.com\\sh\\", b"\\\\.\\C:\\", b"\\\\?\\UNC\\a.com\\sh\\",
              b"\\\\?\\UNC\\8.8.4.4\\sh\\", b"\\\\.\\pipe\\", b"\\\\0x7f.1\\sh\\", b"\\\\host\\c$\\", b"\\\\?\\Volume{01234567-89ab-cdef-0123-456789abcdef}\\", b"\\\\?\\UNC\\a.com\\c$\\"]
WIN_SEGS = [b"abc", b".", b"..", b"a.b"]
WIN_FILES = [b"x.exe", b"y.dll", b"z.txt", b"noext", b"a.b.DLL"]
WIN_EMBED = [(b"", b""), (b"x ", b" y"), (b'"', b'"')]

STREAM_FAMS = ["net", "winpath", "mix", "ctx", "pairs"]
PATH_LEN = {"quick": 3, "thorough": 4}
WIN_LEN = {"quick": 3, "thorough": 5}


def describe(tier):
    return {
        "rule": (
            "URLs generated from the RFC 3986 grammar, exhaustively within two products: (A) scheme x userinfo x host x port x {'', '/', '/a'} x query x "
            f"fragment x 4 embeddings over {len(SCHEMES)}x{len(USERINFO)}x{len(HOSTS)}x{len(PORTS)} choices; (B) every path of <= {PATH_LEN[tier]} segments over "
            f"{[s.decode() for s in SEGS]} x query x fragment x 2 userinfo x 2 hosts x 2 ports x 2 embeddings. Windows paths: {len(WIN_PREFIX)} prefixes x every "
            f"sequence of <= {WIN_LEN[tier]} segments over {[s.decode() for s in WIN_SEGS]} x {len(WIN_FILES)} file names x 3 embeddings. Each input is given to "
            "find_urls / find_windows_path; EVERY returned node is checked: the expected part children are recomputed from the node's VALUE with an "
            "numeric hosts: EVERY host of 1-3 (thorough 4) dot-separated parts over 20 numbers at the range boundaries 2^8 / 2^16 / 2^20 / 2^24 / 2^32 in decimal, hex and octal, as URL host and as UNC host; "
            "independent component splitter, percent decoder, dot-segment remover, inet_aton parser and Windows path normaliser, and compared "
            "(type, value, label, span, order). The same oracle runs on every network.url / windows.*path node of every scan of the net/winpath/mix "
            "scan-level families. states = distinct inputs, transitions = nodes checked, traces = decoder invocations compared. "
            "Non-trivial = a node with at least two part children."
        ),
        "bounds": {"schemes": len(SCHEMES), "userinfo": len(USERINFO), "hosts": len(HOSTS), "ports": len(PORTS), "segments": len(SEGS),
                   "max_path_segments": PATH_LEN[tier], "win_prefixes": len(WIN_PREFIX), "max_win_segments": WIN_LEN[tier], "streams": STREAM_FAMS},
        "assumptions": [
            "IPv6 canonical text comes from ipaddress (trusted); only span and type are re-derived independently for IPv6 hosts",
            "Windows forms on which the statement is silent (share name '.'/'..', paths that normalise to a bare prefix) are skipped by the reference",
            "TOP_LEVEL_DOMAINS is the definition of 'registered'",
        ],
        "exhaustive": True,
    }


# numeric host forms a / a.b / a.b.c / a.b.c.d: every part at the range boundaries of every form (2^8, 2^16, 2^20, 2^24, 2^32) in decimal, hex and octal
NUM_PARTS = [b"0", b"1", b"255", b"256", b"65535", b"65536", b"70000", b"1048575", b"1048576", b"16777215", b"16777216", b"4294967295", b"4294967296",
             b"0xff", b"0x100", b"0xFFFF", b"0x10000", b"0377", b"0400", b"08"]


def plan(tier, seed):
    units = [("urlA", tier, i) for i in range(len(SCHEMES) * len(USERINFO))]
    units += [("urlB", tier, i) for i in range(len(SEGS) + 1)]
    units += [("win", tier, i) for i in range(len(WIN_PREFIX))] + [("tld-config",)]
    units += [("numhosts", tier, i) for i in range(len(NUM_PARTS))]
    units += [("stream", u) for u in streams.plan(tier, fams=STREAM_FAMS)]
    units += core.interp_axis([("urlB", tier, len(SEGS)), ("urlB", tier, 1), ("win", tier, 0)])
    return units


# ---- expected children -------------------------------------------------------------------------------------


def is_domain(t: bytes) -> bool:
    i = t.rfind(b".")
    return i > 0 and t[i + 1 :].upper() in TOP_LEVEL_DOMAINS


def expected_url_children(v: bytes):
    parts = url_ref.split_url(v)
    if parts is None:
        return None
    out = []
    a, b = parts["scheme"]
    t = v[a:b]
    out.append(("network.url.scheme", t.lower(), "MixedCase" if t not in (t.lower(), t.upper()) else "", a, b))
    for name in ("username", "password"):
        if name in parts:
            a, b = parts[name]
            out.append(("network.url." + name, url_ref.pct_decode(v[a:b]), "", a, b))
    if "host" in parts:
        a, b = parts["host"]
        t = v[a:b]
        dec = url_ref.pct_decode(t)
        if dec.startswith(b"["):
            if dec.endswith(b"]"):
                try:
                    addr = ipaddress.IPv6Address(dec[1:-1].decode("ascii")).compressed.encode()
                    # the address text sits between the (possibly escaped) brackets
                    lb = 3 if t.startswith(b"%5B") else 1
                    rb = 3 if t.endswith(b"%5D") else 1
                    out.append(("network.ipv6", addr, "ip_obfuscation" if addr != v[a + lb : b - rb] else "", a + lb, b - rb))
                except (ValueError, UnicodeDecodeError):
                    pass
        else:
            ip = url_ref.parse_ipv4_loose(dec)
            if ip is not None:
                out.append(("network.ip", ip, "" if t == ip else "ip_obfuscation", a, b))
            elif is_domain(dec):
                out.append(("network.domain", dec, "", a, b))
    if "path" in parts:
        a, b = parts["path"]
        val, removed = url_ref.norm_path(v[a:b])
        out.append(("network.url.path", val, "url.dotpath" if removed else "", a, b))
    for name in ("query", "fragment"):
        if name in parts:
            a, b = parts[name]
            out.append(("network.url." + name, url_ref.pct_decode(v[a:b]), "", a, b))
    return out


def _zone_id_literal(v: bytes) -> bool:
    parts = url_ref.split_url(v)
    if not parts or "host" not in parts:
        return False
    a, b = parts["host"]
    t = v[a:b]
    return t.startswith(b"[") and t.endswith(b"]") and b"%" in t


def _unterminated_ip_literal(v: bytes) -> bool:
    parts = url_ref.split_url(v)
    if not parts or "host" not in parts:
        return False
    a, b = parts["host"]
    dec = url_ref.pct_decode(v[a:b])
    return dec.startswith(b"[") and not dec.endswith(b"]")


def kids(n):
    return [(c.type, c.value, c.obfuscation, c.start, c.end) for c in n.children]


def url_cause(got, exp):
    gt = [g[0] for g in got]
    et = [e[0] for e in exp]
    if gt != et:
        missing = [t for t in et if t not in gt]
        extra = [t for t in gt if t not in et]
        return "parts:" + ",".join(("-" + t.rsplit(".", 1)[-1]) for t in missing) + ",".join(("+" + t.rsplit(".", 1)[-1]) for t in extra)
    for g, e in zip(got, exp):
        if g != e:
            fld = ["type", "value", "label", "start", "end"][[i for i in range(5) if g[i] != e[i]][0]]
            if fld in ("start", "end"):
                fld = "span"
            return f"{g[0].rsplit('.', 1)[-1]}.{fld}"
    return "?"


def check_url_node(rec, n, w, size):
    rec.count("transitions")
    exp = expected_url_children(n.value)
    if exp is None:
        rec.violation("C12.url.value-is-url", "value-not-splittable", w, f"URL node value {core.short(n.value, 60)} has no scheme://authority", size)
        return
    got = kids(n)
    if len(got) >= 2:
        rec.mark("nontrivial", n.value)
    rec.mark("outcomes", tuple(g[0] + g[2] for g in got))
    if got != exp and _zone_id_literal(n.value):
        # an IPv6 literal with a zone id ([fe80::1%2511]): whether it is reported as a host part is not stated; if it is, the part must select
        # the text between the brackets (its value, the zone spelled some canonical way, is not compared)
        a, b = url_ref.split_url(n.value)["host"]
        mine = [g for g in got if g[0] == "network.ipv6"]
        if all((g[3], g[4]) == (a + 1, b - 1) for g in mine):
            exp = [e for e in exp if e[0] != "network.ipv6"]
            got = [g for g in got if g[0] != "network.ipv6"]
    if got != exp and _unterminated_ip_literal(n.value):
        # "[" without "]" in the host: RFC 3986 gives such an authority no decomposition, and the statement constrains the part children that
        # exist; the user name / password children may be absent (everything outside the authority is still required and checked)
        exp = [e for e in exp if e[0] not in ("network.url.username", "network.url.password") or e in got]
    if got != exp:
        cause = url_cause(got, exp)
        rec.violation("C12.url.parts", f"url-parts|{cause}", w,
                      f"URL value {core.short(n.value, 70)}: parts {core.short(got, 260)} but its value decodes to {core.short(exp, 260)} ({cause})", size)
    for c in n.children:
        if c.parent is not n:
            rec.violation("C12.url.parent", "part-parent", w, "a URL part's parent pointer is not the URL node", size)
            break


def expected_win(orig: bytes, value: bytes):
    """-> (expected type, expected children) recomputed from the node's value."""
    segs = value.split(b"\\")
    out = []
    host_at = None
    if value.startswith((b"\\\\.", b"\\\\?")):
        typ = "windows.device.path"
        if len(segs) > 4 and segs[3].upper() == b"UNC":
            host_at = (8, segs[4])
    elif value.startswith(b"\\\\"):
        typ = "windows.unc.path"
        if len(segs) > 2:
            host_at = (2, segs[2])
    else:
        typ = "windows.path"
    if host_at:
        off, seg = host_at
        host = seg.split(b"@", 1)[0]
        ip = url_ref.parse_ipv4_loose(host)
        if ip is not None:
            out.append(("network.ip", ip, "" if ip == host else "ip_obfuscation", off, off + len(host)))
        elif is_domain(host):
            out.append(("network.domain", host, "", off, off + len(host)))
    fn = segs[-1]
    dot = fn.rfind(b".")
    if dot > 0 and fn[:dot].strip(b".") != b"":
        ext = fn[dot:].lower()
        t = {b".dll": "executable.library.filename", b".exe": "executable.filename"}.get(ext, "filename")
        out.append((t, fn, "", len(value) - len(fn), len(value)))
    return typ, out


def check_win_node(rec, n, text, a, b, w, size, supplied=None):
    rec.count("transitions")
    orig = text[a:b]
    ref = url_ref.win_norm(orig)
    if ref is not None and n.value != ref:
        rec.violation("C12.win.value", "win-value-not-normalised", w,
                      f"Windows path {core.short(orig, 60)}: value {core.short(n.value, 60)}, normalised form is {core.short(ref, 60)}", size)
        return
    want_label = "windows.dotpath" if len(n.value) < len(orig) else ""
    if n.obfuscation != want_label:
        rec.violation("C12.win.label", "win-label-iff-shortened", w,
                      f"Windows path {core.short(orig, 60)} -> {core.short(n.value, 60)} labelled {n.obfuscation!r}, expected {want_label!r}", size)
    typ, exp = expected_win(orig, n.value)
    # in a scan tree a path node without sub-structure is a context and also holds engine-attached hits: keep the decoder's own
    got = [(c.type, c.value, c.obfuscation, c.start, c.end) for c in n.children if supplied is None or id(c) in supplied]
    if got:
        rec.mark("nontrivial", n.value)
    rec.mark("outcomes", (n.type, tuple(g[0] for g in got)))
    if n.type != typ:
        rec.violation("C12.win.type", f"win-type|{typ}", w, f"Windows path value {core.short(n.value, 60)} typed {n.type!r}, expected {typ!r}", size)
    if got != exp:
        cause = url_cause(got, exp)
        rec.violation("C12.win.parts", f"win-parts|{cause}", w,
                      f"Windows path value {core.short(n.value, 60)}: children {core.short(got, 200)}, its value gives {core.short(exp, 200)} ({cause})", size)


# ---- generators ---------------------------------------------------------------------------------------------


def embed(url, e):
    pre, suf = e
    if suf is None:  # Pascal string: non-printable bytes, a length byte, the URL, then text that continues with '0'
        return b"\x01\x02\x03\x04\x05\x06\x07\x08\x09" + bytes([len(url)]) + url + b"0xyz"
    return pre + url + suf


def run_url(rec, data, w):
    rec.count("evaluations")
    rec.mark("states", data, True)
    ok, hits = rec.guard("C12.total", w, len(data), network.find_urls, data)
    if not ok:
        return
    rec.count("traces")
    for n in hits:
        if n.type == "network.url":
            check_url_node(rec, n, w, len(data))


def run_win(rec, data, w):
    rec.count("evaluations")
    rec.mark("states", data, True)
    ok, hits = rec.guard("C12.total", w, len(data), mdpath.find_windows_path, data)
    if not ok:
        return
    rec.count("traces")
    for n in hits:
        check_win_node(rec, n, data, n.start, n.end, w, len(data))


def paths(maxlen):
    yield b""
    for k in range(0, maxlen + 1):
        for combo in itertools.product(SEGS, repeat=k):
            yield b"/" + b"/".join(combo)


def stream_monitor(rec, case):
    for n in trees.walk(case.tree):
        if n.type == "network.url" and id(n) in case.log.hits:
            check_url_node(rec, n, case.witness(), case.size)
        elif n.type in ("windows.path", "windows.unc.path", "windows.device.path"):
            h = case.log.hits.get(id(n))
            if h is not None:
                _, _, _, text, a, b = h
                check_win_node(rec, n, text, a, b, case.witness(), case.size, case.log.supplied)


def run_unit(unit, rec):
    kind = unit[0]
    if kind == "urlA":
        si, ui = divmod(unit[2], len(USERINFO))
        scheme, userinfo = SCHEMES[si], USERINFO[ui]
        for host, port, path, q, f, e in itertools.product(HOSTS, PORTS, (b"", b"/", b"/a"), QUERIES, FRAGS, EMBED):
            url = scheme + b"://" + userinfo + host + port + path + q + f
            data = embed(url, e)
            run_url(rec, data, {"kind": "url", "data": data})
        rec.sample({"family": "url-authority", "last": data})
    elif kind == "numhosts":
        first = NUM_PARTS[unit[2]]
        data = b""
        maxparts = 3 if unit[1] == "quick" else 4
        for k in range(0, maxparts):
            for rest in itertools.product(NUM_PARTS, repeat=k):
                host = b".".join((first,) + rest)
                data = b"see http://" + host + b"/a.exe now"
                run_url(rec, data, {"kind": "url", "data": data})
                data = b"x \\\\" + host + b"\\share\\tool.exe y"
                run_win(rec, data, {"kind": "win", "data": data})
        for rest in itertools.product((b"0", b"255", b"256", b"0x1", b"010"), repeat=3) if maxparts == 3 else ():
            host = b".".join((first,) + rest)  # quick: the four-part form over a smaller menu
            data = b"see http://" + host + b"/a.exe now"
            run_url(rec, data, {"kind": "url", "data": data})
        rec.sample({"family": "numeric-hosts", "first_part": first, "last": data})
    elif kind == "urlB":
        first = unit[2]
        L = PATH_LEN[unit[1]]
        for userinfo, host, port in itertools.product((b"", b"u:p@"), (b"example.com", b"%31.1.1.1"), (b"", b":80")):
            if first == len(SEGS):
                plist = [b"", b"/"]
            else:
                plist = [b"/" + b"/".join((SEGS[first],) + c) for k in range(0, L) for c in itertools.product(SEGS, repeat=k)]
            for p in plist:
                for q, f, e in itertools.product(QUERIES, FRAGS, EMBED[:2]):
                    url = b"http://" + userinfo + host + port + p + q + f
                    data = embed(url, e)
                    run_url(rec, data, {"kind": "url", "data": data})
        rec.sample({"family": "url-path", "last": data})
    elif kind == "tld-config":
        # the table of registered top-level domains is a public, mutable set (the only way to add a private TLD or drop a noisy one): host parts
        # follow the table as it is when the scan runs - every history of <= 3 table operations, the URLs and UNC paths scanned after each
        urls = [b"http://files.build.lan/x?q=1#f", b"ftp://u:p@archive.example.zip:21/a/../b", b"http://files.build.LAN/", b"https://example.com/a"]
        wins = [b"\\\\files.build.lan\\share\\x.txt", b"\\\\archive.example.zip\\s\\y.dll"]
        ops = [("add", b"LAN"), ("discard", b"LAN"), ("discard", b"ZIP"), ("add", b"ZIP")]
        saved = set(TOP_LEVEL_DOMAINS)
        n = 0
        try:
            for L in (0, 1, 2, 3):
                for hist in itertools.product(range(len(ops)), repeat=L):
                    TOP_LEVEL_DOMAINS.clear()
                    TOP_LEVEL_DOMAINS.update(saved)
                    for step in range(L + 1):
                        for u in urls:
                            data = b"see " + u + b" now"
                            run_url(rec, data, {"kind": "tld-config", "history": [list(ops[i]) for i in hist[:step]], "data": data})
                        for p_ in wins:
                            data = b"open " + p_ + b" now"
                            run_win(rec, data, {"kind": "tld-config", "history": [list(ops[i]) for i in hist[:step]], "data": data})
                        n += 1
                        if step < L:
                            op, tld = ops[hist[step]]
                            getattr(TOP_LEVEL_DOMAINS, op)(tld)
        finally:
            TOP_LEVEL_DOMAINS.clear()
            TOP_LEVEL_DOMAINS.update(saved)
        rec.sample({"family": "tld-table-histories", "operations": [list(o) for o in ops], "states_scanned": n})
    elif kind == "win":
        prefix = WIN_PREFIX[unit[2]]
        L = WIN_LEN[unit[1]]
        for k in range(1, L + 1):
            for combo in itertools.product(WIN_SEGS, repeat=k):
                for fn in WIN_FILES:
                    p = prefix + b"\\".join(combo) + b"\\" + fn
                    for pre, suf in WIN_EMBED:
                        data = pre + p + suf
                        run_win(rec, data, {"kind": "win", "data": data})
        rec.sample({"family": "windows-path", "last": data})
    elif kind == "stream":
        streams.run_unit(unit[1], rec, stream_monitor, repeat=2)


def replay(w, rec):
    if w.get("kind") == "tld-config":
        run_unit(("tld-config",), rec)
        return
    k = w.get("kind")
    if k == "url":
        run_url(rec, w["data"], w)
    elif k == "win":
        run_win(rec, w["data"], w)
    elif w.get("engine") == "stream":
        streams.replay(w, rec, stream_monitor)
