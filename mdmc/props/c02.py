"""C02  Layered obfuscation round-trips: every layer is peeled, in order, to payload."""
from __future__ import annotations

import itertools

from multidecoder.multidecoder import Multidecoder

from mdmc import core, trees
from mdmc.engines import streams
from mdmc.props.c13 import b64enc
from mdmc.refs import codec_ref

ID = "C02"
TITLE = "Layered obfuscation round-trips: every layer is peeled, in order, to payload"


def Q(t):
    return any(c in t for c in b"\"'`\\")


def ascii_text(t):
    return len(t) >= 7 and all(c in (9, 10, 13) or 0x20 <= c < 0x7F for c in t)


def caretize(t, positions):
    out = bytearray()
    for i, c in enumerate(t):
        if i in positions:
            out.append(0x5E)
        out.append(c)
    return bytes(out)


def cmd_ok(t):
    return not Q(t) and b"^" not in t and b"\0" not in t and b"\r" not in t and b"\n" not in t and t.count(b")") <= t.count(b"(") and all(
        t[:i].count(b")") <= t[:i].count(b"(") for i in range(len(t) + 1)) and len(t) >= 3 and not t[:1].isalnum()


class Enc:
    def __init__(self, name, dom, enc, typ, label, plain=None, bare=False, to_end=False):
        self.name, self.dom, self.enc, self.typ, self.label = name, dom, enc, typ, label
        self.plain = plain or (lambda t: t)  # the node value expected for this layer
        self.bare = bare  # needs non-alphabet neighbours (space), LF is not neutral
        self.to_end = to_end  # consumes everything to the end of the text / next NUL


def _split(t):
    return max(1, len(t) // 2)


ENC = [
    Enc("b64", lambda t: codec_ref.b64_accepts(b64enc(t)), b64enc, "", "encoding.base64", bare=True),
    Enc("atob", lambda t: len(t) > 0, lambda t: b'atob("' + b64enc(t) + b'")', "javascript.string", "encoding.base64"),
    Enc("B64Dec", lambda t: len(t) > 0, lambda t: b"Base64Decode('" + b64enc(t) + b"')", "vba.string", "encoding.base64"),
    Enc("FromB64", lambda t: len(t) > 0, lambda t: b'[System.Convert]::FromBase64String("' + b64enc(t) + b'")', "powershell.bytes", "encoding.base64"),
    Enc("hex", lambda t: len(t) >= 10, lambda t: t.hex().encode(), "", "decoded.hexadecimal", bare=True),
    Enc("HEX", lambda t: len(t) >= 10, lambda t: t.hex().upper().encode(), "", "decoded.hexadecimal", bare=True),
    Enc("FromHex", lambda t: len(t) >= 10, lambda t: b"FromHexString('" + t.hex().encode() + b"')", "powershell.bytes", "encoding.hexidecimal"),
    Enc("utf16", ascii_text, lambda t: t.decode("latin-1").encode("utf-16le"), "", "codec.uft-16"),
    Enc("xml", lambda t: len(t) >= 5, lambda t: b"".join(b"&#%d;" % c for c in t), "", "unescape.xml"),
    Enc("xmlx", lambda t: len(t) >= 5, lambda t: b"".join(b"&#x%02x;" % c for c in t), "", "unescape.xml"),
    Enc("xmlmix", lambda t: len(t) >= 5, lambda t: b"".join((b"&#x%02X;" if i % 2 else b"&#%03d;") % c for i, c in enumerate(t)), "", "unescape.xml"),
    Enc("unesc", lambda t: len(t) > 0, lambda t: b"unescape('" + b"".join(b"%%%02X" % c for c in t) + b"')", "string", "function.unescape"),
    Enc("unescP", lambda t: len(t) > 0, lambda t: b"unescape('" + b"".join(bytes([c]) if (0x20 <= c < 0x7F and c not in b"%'") else b"%%%02x" % c for c in t) + b"')",
        "string", "function.unescape"),
    Enc("concat+", lambda t: len(t) >= 2 and not Q(t), lambda t: b'"' + t[: _split(t)] + b'" + "' + t[_split(t):] + b'"', "string", "concatenation"),
    Enc("concat&", lambda t: len(t) >= 2 and not Q(t), lambda t: b"'" + t[:1] + b"'&'" + t[1:] + b"'", "string", "concatenation"),
    Enc("concat3", lambda t: len(t) >= 3 and not Q(t), lambda t: b'"' + t[:1] + b'" &amp; "' + t[1:-1] + b'" _\n& "' + t[-1:] + b'"', "string", "concatenation"),
    Enc("rev", lambda t: len(t) >= 1 and not Q(t), lambda t: b'reverse("' + t[::-1] + b'")', "string", "reverse"),
    Enc("strrev", lambda t: len(t) >= 1 and not Q(t), lambda t: b"StrReverse( '" + t[::-1] + b"' )", "vba.string", "vba.reverse"),
    Enc("repl", lambda t: len(t) >= 1 and not Q(t) and b"#" not in t, lambda t: b'"' + t.replace(b"e", b"#") + b'".replace("#","e")', "string", "replace"),
    Enc("vbarepl", lambda t: len(t) >= 1 and not Q(t) and b"#" not in t, lambda t: b'Replace("' + t.replace(b"e", b"#") + b'", "#", "e")', "vba.string", "vba.replace"),
    Enc("psrepl", lambda t: len(t) >= 1 and not Q(t) and b"#" not in t, lambda t: b"'" + t.replace(b"e", b"#") + b"' -replace '#','e'", "powershell.string", "replace"),
    Enc("jsrepl", lambda t: len(t) >= 1 and not Q(t) and b"#" not in t, lambda t: b'"' + t.replace(b"e", b"#") + b'".replace(/#/g,"e")', "javascript.string", "replace"),
    Enc("cmd^1", cmd_ok, lambda t: caretize(b"cmd /c" + t, {1, 9}), "shell.cmd", "unescape.shell.carets", plain=lambda t: b"cmd /c" + t, to_end=True),
    Enc("cmd^2", cmd_ok, lambda t: caretize(b"cmd /c" + t, {2, len(t) + 5}), "shell.cmd", "unescape.shell.carets", plain=lambda t: b"cmd /c" + t, to_end=True),
    Enc("psbytes", lambda t: len(t) >= 501, lambda t: b",".join(b"%d" % c for c in t), "powershell.bytes", ""),
]
ENCI = {e.name: e for e in ENC}

PAYLOADS = [
    b" visit http://evil.example.com/a.exe now",
    b" connect 8.8.4.4 port 443 then",
    b" mail bob@example.org or see sub.example.net ok",
    b" run C:\\Users\\Public\\evil.dll /s (quiet)",
    b' <iframe src="http://evil.example.com/gate.php" width=0></iframe>',
    (b" padded text with http://pad.example.com/x.exe inside and much filler: " + b"lorem ipsum dolor sit amet " * 22)[:600],
    b" var nop = %u9090%u9090 + %41; get http://evil.example.com/n.exe ok",  # literal text that LOOKS like escapes of a layer above it
]
EMBED = [(b"", b""), (b"xx ", b" yy"), (b"lorem ipsum: -- 17 ", b" ;ipsum"), (b"a\nb\n\t", b"\n\nz"), (b"0 ", b""), (b"", b"\x00tail")]
HEIGHT = {"quick": 2, "thorough": 3}
MAX_BLOB = 120000
H_PARTIAL = {"quick": 3, "thorough": 4}  # one more level with 2 payloads x 2 embeddings


def describe(tier):
    return {
        "rule": (
            f"{len(ENC)} encoders {[e.name for e in ENC]}, each with its documented domain, an own encoder and the expected (type, label). "
            f"ALL stacks of height 1..{HEIGHT[tier]} x {len(PAYLOADS)} payloads (URL+exe, IP, e-mail+domain, Windows path, iframe, literal %uXXXX / %XX text that must survive the layers above it, 600-byte padded text) x {len(EMBED)} embeddings x depth "
            f"limits {{height, height+1, 10}} (and limit 1 followed by an in-place scan_node(tree) and a second flatten(), which must equal the flatten() of a copy of the expanded tree), ALL stacks of height {H_PARTIAL[tier]} x 2 payloads x 2 embeddings at depth 10, every single encoder repeated 1..11 times, and every encoder around payloads of 1 kB .. 16 kB (thorough .. 70 kB, crossing 65536) with the indicators at the end "
            "(depth limit 10 bites at layer 11). Two-stacks documents: the same encoded script twice in one document, once under one more (call-form) layer, in both orders at depth limits 2 / 3 / 10 - each copy peeled as far as its own depth allows. After-failure histories: every stack of height 1..2 is scanned once on a scanner whose extra user decoder raises (RuntimeError / KeyboardInterrupt) on the innermost plaintext, the caller catches it, and the same scanner must then peel the same document completely. Isolation histories: for EVERY entry i of the default registry (and list operations clear/reverse/del/append/insert/slice-assign) another default scanner's public `decoders` list is customised in place, then a brand-new default Multidecoder() must peel every height-1 stack and 3 height-2 stacks. Stacks whose intermediate text leaves the next encoder's domain, and embeddings that are not neutral for the "
            "outermost encoder (bare base64/hex next to LF-joined words; cmd with trailing text), are pruned and counted. Oracle = the stack itself: a chain "
            "of nested nodes, outermost first, node i has value = plaintext i and the type/label of layer i, the outermost covers exactly the blob; "
            "with depth >= height+1 every indicator found by scanning the plaintext payload alone is found beneath the innermost node; flatten() of the "
            "root == surroundings with the (re-quoted) payload substituted. states = distinct inputs, transitions = layers verified, traces = scans "
            "checked. Non-trivial = every stack of height >= 2 that survives pruning."
        ),
        "bounds": {"encoders": [e.name for e in ENC], "height_full": HEIGHT[tier], "height_partial": H_PARTIAL[tier], "payloads": len(PAYLOADS), "embeddings": len(EMBED)},
        "assumptions": ["neutral surroundings for a stack: no byte adjacent to the blob -- also across a line break -- belongs to the outermost encoder's alphabet",
                        "UTF-16 layer restricted to ASCII plaintext (the statement says 'UTF-8 text of those characters', which differs from the raw bytes above 0x7F)",
                        "extra unrelated nodes are allowed; the chain and the flatten result are not negotiable"],
        "exhaustive": True,
    }


def plan(tier, seed):
    units = [("stacks", tier, e.name) for e in ENC]  # innermost encoder fixed per unit
    units += [("partial", tier, e.name) for e in ENC]
    units += [("repeat", e.name) for e in ENC if e.name not in ("psbytes",)]
    units += [("sizes", tier, e.name) for e in ENC]
    units += [("isolation", i, ISO_PARTS) for i in range(ISO_PARTS)]
    units += [("after-failure", tier, e.name) for e in ENC] + [("twostacks", tier, e.name) for e in ENC]
    units += core.interp_axis([("repeat", n) for n in ("b64", "hex", "utf16", "xml", "unesc", "concat+", "rev", "repl", "cmd^1")])
    return units


_MD = None
_OVERRIDE = None  # (tag, scanner) while an isolation history is being checked
ISO_PARTS = 16


def md():
    global _MD
    if _OVERRIDE is not None:
        return _OVERRIDE[1]
    if _MD is None:
        _MD = Multidecoder(streams.registry())
    return _MD


def _raiser(data):
    raise RuntimeError("decoder added to ANOTHER scanner's list")


ISO_OPS = ["clear", "reverse", "del-first", "del-last", "append-raiser", "insert-raiser", "slice-assign-empty", "pop-all-but-keywords"]


def iso_history(op):
    """Customise ANOTHER default scanner in place through its public `decoders` list, then build a brand-new default scanner."""
    other = Multidecoder()
    d = other.decoders
    if isinstance(op, int):
        if op < len(d):
            d.remove(d[op])
    elif op == "clear":
        d.clear()
    elif op == "reverse":
        d.reverse()
    elif op == "del-first":
        del d[0]
    elif op == "del-last":
        del d[-1]
    elif op == "append-raiser":
        d.append(_raiser)
    elif op == "insert-raiser":
        d.insert(0, _raiser)
    elif op == "slice-assign-empty":
        d[:] = []
    elif op == "pop-all-but-keywords":
        d[:] = [x for x in d if type(x).__name__ == "partial"]
    return Multidecoder()


def build(stack, payload):
    """stack[0] innermost.  Returns (blob, layers outermost first = [(enc, plaintext(node value), blob of that layer)]) or None if pruned."""
    text = payload
    layers = []
    for name in stack:
        e = ENCI[name]
        if not e.dom(text):
            return None
        if len(text) > MAX_BLOB // 2:
            return None
        blob = e.enc(text)
        if len(blob) > MAX_BLOB:
            return None
        layers.append((e, e.plain(text), blob))
        text = blob
    return text, layers[::-1]


def neutral(outer: Enc, pre, suf):
    if outer.to_end and suf not in (b"", ) and not suf.startswith(b"\x00"):
        return False
    if outer.bare:
        if pre[-1:] in (b"\n", b"\t") or suf[:1] in (b"\n",):
            return False
        if pre and pre[-1:] != b" " or suf and suf[:1] != b" ":
            return False
    if outer.name == "utf16" and (pre[-1:] == b"\x00" or suf[:1] == b"\x00"):
        return False
    if outer.name == "psbytes" and (pre[-1:].isdigit() or suf[:1].isdigit()):
        return False
    if outer.typ == "shell.cmd" and pre and pre[-1:].isalnum():
        return False
    return True


def find_child(node, base_nodes, typ, label, value, span=None):
    out = []
    for n, s in base_nodes:
        if n.type == typ and n.obfuscation == label and n.value == value and (span is None or (s, s + n.end - n.start) == span):
            out.append(n)
    return out


def inner_nodes(node):
    """(descendant, absolute start in node.value) reachable from `node` through undecoded contexts."""
    out = []

    def rec(n, base):
        for c in n.children:
            a = base + c.start
            out.append((c, a))
            if c.value.lower() == n.value[c.start : c.end].lower():
                rec(c, a)

    rec(node, 0)
    return out


def indicators(tree):
    return sorted({(n.type, n.value) for n in trees.walk(tree) if n.type.startswith(("network.", "executable.", "windows.", "path")) and n.type != "network.url.scheme"})


_PAY = {}


def payload_facts(payload, k):
    """What a scan of the plaintext payload alone finds with the depth that remains beneath the innermost layer."""
    k = min(k, 10)
    key = (payload, k, _OVERRIDE[0] if _OVERRIDE else None)
    if key not in _PAY:
        facts_md = _default_md() if (_OVERRIDE and _OVERRIDE[0].startswith("customise")) else Multidecoder(streams.registry())
        t = facts_md.scan(payload, k)
        _PAY[key] = (indicators(t), t.flatten())
    return _PAY[key]


_DEF = None


def _default_md():
    """The reference for isolation units: a default scanner built before any history ran in this process."""
    global _DEF
    if _DEF is None:
        _DEF = Multidecoder()
    return _DEF


def check(rec, stack, pi, ei, depth, tier_w, embed=None):
    payload = PAYLOADS[pi]
    pre, suf = embed if embed is not None else EMBED[ei]
    b = build(stack, payload)
    if b is None:
        rec.note("pruned: intermediate text outside the next encoder's domain")
        return
    blob, layers = b
    if not neutral(layers[0][0], pre, suf):
        rec.note("pruned: embedding not neutral for the outermost encoder")
        return
    data = pre + blob + suf
    w = {"kind": "stack", "stack": list(stack), "payload": pi, "embed": ei, "depth": depth}
    if embed is not None:
        w["embed_bytes"] = [pre, suf]
    if _OVERRIDE is not None:
        w["after"] = _OVERRIDE[0]
    size = len(stack) * 100000 + len(data)
    rec.count("evaluations")
    rec.mark("states", (stack, pi, ei, depth), True)
    ok, tree = rec.guard("C02.total", w, size, md().scan, data, depth, limit=30)
    if not ok:
        return
    rec.count("traces")
    if len(stack) >= 2:
        rec.mark("nontrivial", 0, True)
    names = "/".join(e.name for e, _, _ in layers)
    # chain ---------------------------------------------------------------------------------------------------
    node = None
    base = trees.abs_nodes(tree)
    span = (len(pre), len(pre) + len(blob))
    reached = 0
    for i, (e, plain, lblob) in enumerate(layers):
        if i >= depth:
            break
        if i > 0:
            # the next layer's blob occupies plain_{i-1} entirely (cmd: after the 'cmd /c' prefix)
            pprev = layers[i - 1][1]
            off = len(pprev) - len(lblob)
            span = (off, off + len(lblob))
        cands = find_child(node, base, e.typ, e.label, plain, span)
        rec.count("transitions")
        if not cands:
            near = [(n.type, n.obfuscation, s, s + n.end - n.start, n.value[:24]) for n, s in base if s < span[1] and s + n.end - n.start > span[0]][:6]
            rec.violation("C02.chain", f"layer-missing|{e.name}|{'outermost' if i == 0 else 'inner'}", w,
                          f"stack {names} (outermost first), payload #{pi}, embedding #{ei}, depth {depth}: layer {i} ({e.name}: type {e.typ!r} label {e.label!r}) with the "
                          f"expected plaintext is not at span {span}; overlapping nodes there: {core.short(near, 300)}", size)
            return
        node = cands[0]
        base = inner_nodes(node)
        reached = i + 1
    # payload indicators ---------------------------------------------------------------------------------------
    want_ind, pay_flat = payload_facts(payload, depth - len(layers))
    if depth >= len(layers) + 1 and reached == len(layers):
        got = {(n.type, n.value) for n in trees.walk(node)}
        missing = [x for x in want_ind if x not in got]
        if missing:
            rec.violation("C02.payload-indicators", f"indicator-missing|{layers[-1][0].name}", w,
                          f"stack {names}: indicators of the plaintext payload not found beneath the innermost node: {core.short(missing, 200)}", size)
    # flatten of a tree that is expanded further in place (scan with a small limit, flatten, scan_node on the same tree, flatten again):
    # the text is a function of the tree as it is NOW
    if embed is not None:
        return  # the surroundings hold another encoded blob: flatten() substitutes that one too (checked when it is the subject)
    if depth < len(layers) + 1 and _OVERRIDE is None:
        ok, _f1 = rec.guard("C02.total", w, size, tree.flatten)
        ok2, _ = rec.guard("C02.total", w, size, md().scan_node, tree, 10)
        if ok and ok2:
            ok3, f2 = rec.guard("C02.total", w, size, tree.flatten)
            f3 = trees.mknode(trees.tup(tree)).flatten()
            if ok3 and f2 != f3:
                rec.violation("C02.flatten", f"flatten-stale-after-expansion|{layers[0][0].name}", w,
                              f"stack {names}: scan(depth {depth}), flatten(), scan_node(tree) and flatten() again gives {core.short(f2, 120)}; a copy of the same tree flattens to {core.short(f3, 120)}", size)
        return
    # flatten ------------------------------------------------------------------------------------------------------
    if depth >= len(layers) + 1:
        inner = pay_flat
        for e, plain, lblob in reversed(layers):
            if e.typ == "shell.cmd":
                inner = b"cmd /c" + inner  # the cmd node's value keeps its command prefix; the rest is the substituted next layer
            if e.typ.endswith("string"):
                inner = b'"' + inner + b'"'
        exp = pre + inner + suf
        ok, flat = rec.guard("C02.total", w, size, tree.flatten)
        if ok and flat != exp:
            rec.violation("C02.flatten", f"flatten-differs|{layers[0][0].name}", w,
                          f"stack {names}: flatten() = {core.short(flat, 160)}; expected the surroundings with the payload substituted: {core.short(exp, 160)}", size)


def run_unit(unit, rec):
    kind = unit[0]
    if kind == "stacks":
        tier, innermost = unit[1], unit[2]
        H = HEIGHT[tier]
        n = 0
        for h in range(1, H + 1):
            for rest in itertools.product([e.name for e in ENC], repeat=h - 1):
                stack = (innermost,) + rest
                for pi in range(len(PAYLOADS)):
                    if build(stack, PAYLOADS[pi]) is None:
                        rec.note("pruned: intermediate text outside the next encoder's domain")
                        continue
                    for ei in range(len(EMBED)):
                        for depth in sorted({h, h + 1, 10} | ({1} if h >= 2 and ei < 2 else set())):
                            check(rec, stack, pi, ei, depth, None)
                            n += 1
        rec.sample({"innermost": innermost, "heights": list(range(1, H + 1)), "cases": n, "last_stack_outermost_first": list(stack[::-1])})
    elif kind == "partial":
        tier, innermost = unit[1], unit[2]
        h = H_PARTIAL[tier]
        n = 0
        names = [e.name for e in ENC if e.name != "psbytes"]
        for rest in itertools.product(names, repeat=h - 1):
            stack = (innermost,) + rest
            for pi in (0, 2):
                if build(stack, PAYLOADS[pi]) is None:
                    rec.note("pruned: intermediate text outside the next encoder's domain")
                    continue
                for ei in (1, 0):
                    check(rec, stack, pi, ei, 10, None)
                    n += 1
        rec.sample({"innermost": innermost, "height": h, "cases": n})
    elif kind == "sizes":
        run_sizes(rec, unit[1], unit[2])
    elif kind == "twostacks":
        # the same encoded script twice in ONE document, once under one more layer than the other, so that the same decoded value sits at two
        # nesting depths; with a depth limit that binds for the deeper copy only, each copy is still peeled as far as ITS depth allows
        inner = unit[2]
        n = 0
        for outer in [e.name for e in ENC if not e.bare and e.name not in ("psbytes", "cmd^1", "cmd^2")]:
            bs, bd = build((inner,), PAYLOADS[0]), build((inner, outer), PAYLOADS[0])
            if bs is None or bd is None or ENCI[inner].to_end:
                continue  # (a cmd layer runs to the end of the text: it cannot be followed by a second blob)
            S, D = bs[0], bd[0]
            for first, second, which in ((D, S, "deep-first"), (S, D, "shallow-first")):
                pre0, mid, suf0 = b"xx ", b" ;; ", b" yy"
                for depth in (2, 3, 10):
                    emb_first, emb_second = (pre0, mid + second + suf0), (pre0 + first + mid, suf0)
                    if which == "deep-first":
                        check(rec, (inner, outer), 0, 0, depth, None, embed=emb_first)
                        check(rec, (inner,), 0, 0, depth, None, embed=emb_second)
                    else:
                        check(rec, (inner,), 0, 0, depth, None, embed=emb_first)
                        check(rec, (inner, outer), 0, 0, depth, None, embed=emb_second)
                    n += 2
        rec.sample({"family": "same-script-at-two-depths-in-one-document", "innermost": inner, "cases": n})
    elif kind == "after-failure":
        n = 0
        for exc_name in ("RuntimeError", "KeyboardInterrupt"):
            for rest in [()] + [(e.name,) for e in ENC]:
                stack = (unit[2],) + rest
                if build(stack, PAYLOADS[0]) is not None:
                    run_after_failure(rec, stack, exc_name)
                    n += 1
        rec.sample({"family": "scan-aborted-by-an-exception-then-rescanned", "innermost": unit[2], "stacks": n})
    elif kind == "isolation":
        _default_md()
        n_entries = len(_default_md().decoders)
        ops = (list(range(n_entries)) + ISO_OPS)[unit[1]::unit[2]]
        for op in ops:
            run_isolation(rec, op)
        rec.sample({"family": "isolation", "histories_on_another_default_scanner": [str(o) for o in ops], "then": "fresh Multidecoder() on every height-1 stack"})
    elif kind == "repeat":
        name = unit[1]
        for reps in range(1, 12):
            stack = (name,) * reps
            b = build(stack, PAYLOADS[0])
            if b is None:
                rec.note("repeat chain pruned (domain or size)")
                continue
            for ei in (0, 1):
                check(rec, stack, 0, ei, 10, None)
        rec.sample({"repeat": name, "layers": "1..11 at depth limit 10"})


class _Bomb:
    """A user-supplied decoder that raises when it is handed one particular value (the innermost plaintext) while it is armed."""

    def __init__(self, value, exc):
        self.value, self.exc, self.armed, self.fired = value, exc, True, False

    def __call__(self, data):
        if self.armed and data == self.value:
            self.fired = True
            raise self.exc("user decoder failed")
        return []


def run_after_failure(rec, stack, exc_name):
    """A scan of the document is aborted by an exception escaping from a user decoder (caught by the caller, as a service loop would); the SAME
    scanner then scans the same document again and must peel every layer."""
    global _OVERRIDE
    blob, layers = build(stack, PAYLOADS[0])
    pre, suf = EMBED[1]
    data = pre + blob + suf
    exc = {"RuntimeError": RuntimeError, "KeyboardInterrupt": KeyboardInterrupt}[exc_name]
    bomb = _Bomb(layers[-1][1], exc)
    scanner = Multidecoder(list(streams.registry()) + [bomb])
    try:
        scanner.scan(data, 10)
    except exc:
        pass
    bomb.armed = False
    if not bomb.fired:
        rec.note("after-failure: the bomb never saw the innermost plaintext (stack not peeled that far)")
    _OVERRIDE = (f"scan-aborted-by-{exc_name}-then-rescanned", scanner)
    try:
        check(rec, stack, 0, 1, 10, None)
    finally:
        _OVERRIDE = None


def run_isolation(rec, op):
    """History: another default scanner is customised in place (op), THEN a new default Multidecoder() must peel every layer."""
    global _OVERRIDE
    _default_md()
    _OVERRIDE = (f"customise-another-default-scanner:{op}", iso_history(op))
    try:
        for e in ENC:
            check(rec, (e.name,), 5 if e.name == "psbytes" else 0, 1, 10, None)
        for stack in (("hex", "b64"), ("rev", "concat+"), ("xml", "atob")):
            check(rec, stack, 0, 2, 10, None)
    finally:
        _OVERRIDE = None


SIZES = {"quick": (1000, 4096, 16385), "thorough": (1000, 4096, 16385, 65535, 65536, 65537, 70000)}


def run_sizes(rec, tier, name):
    """One layer around payloads of increasing size (the payload indicators sit at the very end, after the filler)."""
    e = ENCI[name]
    sizes = SIZES["thorough"] if name in ("psbytes", "hex", "b64") else SIZES[tier]  # element-count / run-length regexes: cross 65536 in both tiers
    for n in sizes:
        filler = (b"lorem ipsum dolor sit amet consectetur " * (n // 39 + 1))[:n]
        payload = b" " + filler + b" then get http://tail.example.com/last.exe now"
        if not e.dom(payload):
            rec.note("size ladder: payload outside the encoder's domain")
            continue
        blob = e.enc(payload)
        if len(blob) > 1500000:
            rec.note("size ladder: blob above 1.5 MB skipped")
            continue
        for pre, suf in ((b"", b""), (b"xx ", b"" if e.to_end else b" yy")):
            data = pre + blob + suf
            w = {"kind": "size", "encoder": name, "n": n, "pre": pre, "suf": suf}
            rec.count("evaluations")
            rec.mark("states", 0, True)
            rec.mark("nontrivial", 0, True)
            ok, tree = rec.guard("C02.total", w, n, md().scan, data, 10, limit=120)
            if not ok:
                continue
            rec.count("traces")
            rec.count("transitions")
            span = (len(pre), len(pre) + len(blob))
            cands = find_child(None, trees.abs_nodes(tree), e.typ, e.label, e.plain(payload), span)
            if not cands:
                near = [(x.type, x.obfuscation, s0, s0 + x.end - x.start) for x, s0 in trees.abs_nodes(tree) if x.type == e.typ and x.obfuscation == e.label][:4]
                rec.violation("C02.chain", f"layer-missing|{e.name}|large-payload", w,
                              f"{e.name} layer around a {len(payload)}-byte payload: no node with the plaintext at span {span}; same-label nodes: {near}", n)
                continue
            got = {(x.type, x.value) for x in trees.walk(cands[0])}
            if ("network.url", b"http://tail.example.com/last.exe") not in got:
                rec.violation("C02.payload-indicators", f"indicator-missing|{e.name}|large-payload", w,
                              f"{e.name} layer around a {len(payload)}-byte payload: the URL at the end of the payload is not reported beneath it", n)
    rec.sample({"family": "payload-sizes", "encoder": name, "sizes": list(SIZES[tier])})


def replay(w, rec):
    if w.get("kind") == "size":
        run_sizes(rec, "thorough" if w["n"] > 16385 else "quick", w["encoder"])
        return
    if w.get("kind") == "stack" and w.get("embed_bytes"):
        check(rec, tuple(w["stack"]), w["payload"], w["embed"], w["depth"], None, embed=tuple(w["embed_bytes"]))
        return
    if w.get("kind") == "stack" and str(w.get("after", "")).startswith("scan-aborted-by-"):
        run_after_failure(rec, tuple(w["stack"]), w["after"].split("-")[3])
        return
    if w.get("kind") == "stack" and w.get("after"):
        global _OVERRIDE
        op = w["after"].split(":", 1)[1]
        _default_md()
        _OVERRIDE = (w["after"], iso_history(int(op) if op.isdigit() else op))
        try:
            check(rec, tuple(w["stack"]), w["payload"], w["embed"], w["depth"], None)
        finally:
            _OVERRIDE = None
        return
    if w.get("kind") == "stack":
        check(rec, tuple(w["stack"]), w["payload"], w["embed"], w["depth"], None)
