"""C15  String concatenation, reversal and replacement are evaluated exactly."""
from __future__ import annotations

import itertools

from multidecoder.decoders import concat, replace, reverse, vba
from multidecoder.multidecoder import Multidecoder

from mdmc import core, trees
from mdmc.engines import streams

ID = "C15"
TITLE = "String concatenation, reversal and replacement are evaluated exactly"

CH = [b"a", b"b", b"+", b"&", b" ", b"_", b";"]
OPS = (b"+", b"&", b"&amp;")
SEPS = [b"+", b"&", b"&amp;"]
SPACING = [(b"", b""), (b" ", b" "), (b" _\n", b" "), (b"", b"\t")]
EMBED = [(b"", b""), (b"x = ", b";"), (b"\n", b" 'c")]


# multi-character contents that look like markup / escapes / operator spellings: a literal's content is data, whatever it resembles
WORDS = [b"&lt;", b"&gt;", b"&amp;", b"&quot;", b"&#43;", b"a&lt;b&gt;", b"&amp;amp;", b"+=", b"&&", b"%41", b"^", b"a", b"",
         b"\\u0041", b"h\\u0074\\u0074p", b"C:\\users\\u0041bc", b"a\\x41", b"\\n", b"a\\\\b"]  # written escapes are data too (a literal just cannot END in a backslash)


def contents(maxlen):
    for L in range(0, maxlen + 1):
        for c in itertools.product(CH, repeat=L):
            yield b"".join(c)


def describe(tier):
    L2 = 3 if tier == "thorough" else 2
    return {
        "rule": (
            f"literal contents = every string of length 0..{L2} over {[c.decode() for c in CH]} (so literals that contain, start or end with a joining operator "
            "occur; only literals that ARE a bare operator are excluded, as in the statement) x quote in {',\"}. Concatenation: every chain of 2 literals "
            f"(contents <= {L2}), 3 literals (contents <= 1) and 4 literals (contents from a 4-menu) x every separator spelling {[s.decode() for s in SEPS]} x 4 spacings "
            "(none, spaces, VB line continuation, tab) x 3 embeddings; every chain of 2 and 3 literals, every reversal and every replacement over the markup-like contents "
            f"{[w.decode() for w in WORDS]}; padding runs of 100..5000 blanks / underscores / tabs / continuations around every operator spelling. Reversal: reverse(/reversed(/StrReverse( x inner spacing x every literal. "
            "Operand relations: 7 subjects x every pattern that is a substring (<= 5 bytes) of the subject or its swapcase / upper / lower / reverse / one-byte extension x 4 replacements x 4 dialects. JS regex patterns that contain quote characters (the pattern is not a literal). Replacement: 4 dialects (the JS regex dialect with every flag set of {'', g, i, gi, m, gim}) x (x, a, b) over the same literal set with non-empty a (overlapping occurrences such as aaa/aa, b containing a, "
            "empty b) x spacing. Each expression is given to the dialect's decoder; the COMPLETE result list must equal the single expected node "
            "(type, label, value from Python semantics on the unquoted contents: join / [::-1] / bytes.replace, span = whole expression). Every chain "
            "is also scanned with the shipped registry and the expected node must be present at the expression's absolute span. "
            "states = distinct expressions, transitions = decoder calls compared, traces = same. Non-trivial = expression whose decoded value differs from every literal in it."
        ),
        "bounds": {"content_alphabet": [c.decode() for c in CH], "max_content_len_pairs": L2, "separators": [s.decode() for s in SEPS],
                   "spacings": len(SPACING), "embeddings": len(EMBED)},
        "assumptions": ["literals contain no quote characters and no backticks, and do not end in a backslash (either would change where the literal ends); backslash escapes inside a literal are data",
                        "replacement with an empty search string is outside the statement ('every occurrence of a' is undefined) and is not generated"],
        "exhaustive": True,
    }


def lit(c, q):
    return q + c + q


def plan(tier, seed):
    units = [("cat2", tier, i) for i in range(len(CH) + 1)]
    units += [("cat3", tier), ("cat4", tier), ("catlong", tier), ("jsquoted", tier), ("rev", tier)]
    units += [("repl", tier, d, i) for d in range(4) for i in range(len(CH) + 1)]
    units += [("words", tier, i) for i in range(len(WORDS))]
    units += [("relations", tier, d) for d in range(4)]
    units += core.interp_axis([("cat4", tier), ("jsquoted", tier), ("words", tier, 0), ("catlong", tier)])
    return units


def expect_one(rec, clause, fn, data, exp, w, scan=False):
    """fn(data) must return exactly [exp]; exp = (type, value, label, start, end)."""
    rec.count("evaluations")
    rec.count("transitions")
    rec.mark("states", data, True)
    ok, hits = rec.guard("C15.total", w, len(data), fn, data)
    if not ok:
        return
    rec.count("traces")
    got = [(h.type, h.value, h.obfuscation, h.start, h.end) for h in hits]
    if got != [exp]:
        if not got:
            cause = "no-result"
        elif len(got) > 1:
            cause = "split-into-several"
        else:
            g = got[0]
            cause = "span" if g[3:] != exp[3:] else ("value" if g[1] != exp[1] else "type-or-label")
        rec.violation(clause, f"{clause.split('.')[1]}|{cause}", w,
                      f"{fn.__name__}({data!r}) = {core.short(got, 200)}; expected {[exp]!r} ({cause})", len(data))
    if scan:
        rec.count("evaluations")
        ok, tree = rec.guard("C15.total", w, len(data), _md().scan, data)
        if ok:
            found = [n for n, a in _abs(tree) if (n.type, n.value, n.obfuscation) == exp[:3] and (a, a + n.end - n.start) == exp[3:]]
            if not found:
                rec.violation(clause + ".in-scan", f"{clause.split('.')[1]}|missing-in-scan", w,
                              f"scan({data!r}) has no {exp[0]!r}/{exp[2]!r} node with value {exp[1]!r} at {exp[3:]}; tree {core.short(trees.shape(tree), 200)}", len(data))


_MD = None


def _md():
    global _MD
    if _MD is None:
        _MD = Multidecoder(streams.registry())
    return _MD


def _abs(tree):
    out = []

    def rec(n, base):
        for c in n.children:
            a = base + c.start
            out.append((c, a))
            if c.value.lower() == n.value[c.start : c.end].lower():
                rec(c, a)

    rec(tree, 0)
    return out


def chain(lits, sep, sp):
    return (sp[0] + sep + sp[1]).join(lits)


def bare_op(c):
    return c in OPS


def run_cat(rec, contents_list, quotes_list, tier, scan_every=7):
    n = 0
    for cs in contents_list:
        if any(bare_op(c) for c in cs):
            continue
        for qs in quotes_list(len(cs)):
            lits = [lit(c, q) for c, q in zip(cs, qs)]
            for sep in SEPS:
                for sp in SPACING:
                    expr = chain(lits, sep, sp)
                    for pre, suf in EMBED:
                        data = pre + expr + suf
                        n += 1
                        exp = ("string", b"".join(cs), "concatenation", len(pre), len(pre) + len(expr))
                        w = {"kind": "cat", "data": data, "contents": list(cs), "start": len(pre), "end": len(pre) + len(expr)}
                        if exp[1] not in cs:
                            rec.mark("nontrivial", data, True)
                        expect_one(rec, "C15.concat", concat.find_concat, data, exp, w, scan=(n % scan_every == 0 and bool(exp[1])))
    return n


def all_quotes(k):
    return list(itertools.product((b'"', b"'"), repeat=k))


REV = [(b"reverse(", reverse.find_reverse, "string", "reverse"), (b"reversed(", reverse.find_reverse, "string", "reverse"),
       (b"REVERSE(", reverse.find_reverse, "string", "reverse"), (b"StrReverse(", vba.find_strreverse, "vba.string", "vba.reverse"),
       (b"strreverse(", vba.find_strreverse, "vba.string", "vba.reverse")]
INNER = [(b"", b""), (b" ", b" "), (b"\t", b""), (b"", b"\n")]

DIALECTS = ["method", "vba", "powershell", "jsregex"]


JS_FLAGS = [b"g", b"", b"i", b"gi", b"m", b"gim"]


SPELLINGS = [(b".replace(", b"Replace(", b"-replace"), (b".Replace(", b"replace(", b"-Replace"), (b".REPLACE(", b"REPLACE(", b"-REPLACE")]


def repl_expr(d, x, a, b, q, sp, flags=b"g", spell=SPELLINGS[0]):
    s1, s2 = sp
    X, A, B = lit(x, q), lit(a, q), lit(b, q)
    if d == 0:
        return X + spell[0] + s1 + A + s1 + b"," + s2 + B + s1 + b")", replace.find_replace, "string", "replace"
    if d == 1:
        return spell[1] + s1 + X + s1 + b"," + s2 + A + s1 + b"," + s2 + B + s1 + b")", replace.find_vba_replace, "vba.string", "vba.replace"
    if d == 2:
        return X + (s1 or b" ") + spell[2] + s2 + A + s1 + b"," + s2 + B, replace.find_powershell_replace, "powershell.string", "replace"
    return X + b".replace(/" + a + b"/" + flags + s1 + b"," + s2 + B + s1 + b")", replace.find_js_regex_replace, "javascript.string", "replace"


JS_META = set(b"/[](){}\\.+*?^$,")


def run_unit(unit, rec):
    kind, tier = unit[0], unit[1]
    L2 = 3 if tier == "thorough" else 2
    if kind == "cat2":
        i = unit[2]
        firsts = [b""] if i == len(CH) else [c for c in contents(L2) if c[:1] == CH[i]]
        n = run_cat(rec, ((a, b) for a in firsts for b in contents(L2)), all_quotes, tier)
        rec.sample({"family": "concat-2", "expressions": n, "example": chain([lit(firsts[-1], b'"'), lit(b"b+", b"'")], b"&amp;", SPACING[2])})
    elif kind == "cat3":
        n = run_cat(rec, itertools.product(list(contents(1)), repeat=3), all_quotes, tier)
        rec.sample({"family": "concat-3", "expressions": n})
    elif kind == "catlong":
        n = 0
        for pad in (100, 1023, 1024, 1025, 1100, 5000):
            for filler in (b" ", b"_", b"\t", b" _\r\n"):
                run = (filler * pad)[:pad]
                for sp in ((run, b""), (b"", run), (run, run)):
                    for sep in SEPS:
                        for cs in ((b"ab", b"cd"), (b"a", b"", b"c")):
                            lits = [lit(c, b'"') for c in cs]
                            expr = chain(lits, sep, sp)
                            data = b"x = " + expr + b";"
                            n += 1
                            rec.mark("nontrivial", data, True)
                            expect_one(rec, "C15.concat", concat.find_concat, data, ("string", b"".join(cs), "concatenation", 4, 4 + len(expr)),
                                       {"kind": "cat", "data": data, "contents": list(cs), "start": 4, "end": 4 + len(expr)}, scan=False)
        rec.sample({"family": "concat-long-padding", "expressions": n, "paddings": [100, 1023, 1024, 1025, 1100, 5000]})
    elif kind == "jsquoted":
        n = 0
        pats = [b'"', b"'", b'"-"', b"'-'", b'""', b"''", b'"a"', b"a'", b"'a", b'"a', b'a"b']
        for x in (b"a-b-c", b"abc", b"a'b", b"", b"-", b"aXa"):
            for a in pats:
                for b in (b"+", b"", b"a"):
                    for q in (b'"', b"'"):
                        if q in x:
                            continue
                        for flags in (b"g", b""):
                            expr, fn, typ, lab = repl_expr(3, x, a, b, q, SPACING[0], flags)
                            for pre, suf in EMBED[:2]:
                                data = pre + expr + suf
                                n += 1
                                exp = (typ, x.replace(a, b), lab, len(pre), len(pre) + len(expr))
                                rec.mark("nontrivial", data, True)
                                expect_one(rec, "C15.replace", fn, data, exp, {"kind": "repl", "dialect": 3, "data": data, "x": x, "a": a, "b": b, "flags": flags, "spell": 0,
                                                                              "start": len(pre), "end": len(pre) + len(expr), "q": q}, scan=False)
        rec.sample({"family": "js-regex-quoted-patterns", "expressions": n})
    elif kind == "words":
        first = WORDS[unit[2]]
        n = run_cat(rec, ((first, b) for b in WORDS), all_quotes, tier, scan_every=5)
        n += run_cat(rec, ((first, b, c) for b in WORDS for c in WORDS), lambda k: [(b'"',) * k, (b"'",) * k], tier, scan_every=13)
        for name, fn, typ, lab in REV:
            for c in (first, first[::-1]):
                if c.endswith(b"\\"):
                    continue  # a trailing backslash would escape the closing quote: not a literal of the statement's domain
                for q in (b'"', b"'"):
                    expr = name + lit(c, q) + b")"
                    data = b"x = " + expr + b";"
                    n += 1
                    expect_one(rec, "C15.reverse", fn, data, (typ, c[::-1], lab, 4, 4 + len(expr)), {"kind": "rev", "data": data, "content": c, "start": 4, "end": 4 + len(expr), "fn": name}, scan=False)
        for d in range(4):
            for a in WORDS:
                if not a or (d == 3 and any(ch in JS_META for ch in a)):
                    continue
                for b in (b"", b"<", first):
                    x = b"z" + a + first + a
                    expr, fn, typ, lab = repl_expr(d, x, a, b, b'"', SPACING[0], b"g", SPELLINGS[0])
                    data = b"x = " + expr + b";"
                    n += 1
                    expect_one(rec, "C15.replace", fn, data, (typ, x.replace(a, b), lab, 4, 4 + len(expr)),
                               {"kind": "repl", "dialect": d, "data": data, "x": x, "a": a, "b": b, "flags": b"g", "spell": 0, "start": 4, "end": 4 + len(expr)}, scan=False)
        rec.sample({"family": "markup-like-contents", "first": first, "expressions": n})
    elif kind == "relations":
        # a relation BETWEEN the operands: the pattern is a case variant / the reverse / a prefix / a suffix / an overlapping repeat of what the
        # subject holds; 'every occurrence of a' means the exact byte string a
        d = unit[2]
        n = 0
        subjects = [b"Hello hELLo", b"aAaA", b"abcABCabc", b"xyzzyx", b"aaa", b"AbBa-abba", b"Zz"]
        for x in subjects:
            pats = set()
            for i in range(len(x)):
                for j in range(i + 1, min(len(x), i + 5) + 1):
                    sub = x[i:j]
                    pats.update({sub, sub.swapcase(), sub.upper(), sub.lower(), sub[::-1], sub + sub[:1]})
            for a in sorted(pats):
                if d == 3 and any(ch in JS_META for ch in a):
                    continue
                for b in (b"", b"X", a.swapcase(), a + a):
                    for q in (b'"', b"'"):
                        expr, fn, typ, lab = repl_expr(d, x, a, b, q, SPACING[0], b"g", SPELLINGS[0])
                        data = b"v = " + expr + b";"
                        val = x.replace(a, b)
                        n += 1
                        if val != x:
                            rec.mark("nontrivial", data, True)
                        expect_one(rec, "C15.replace", fn, data, (typ, val, lab, 4, 4 + len(expr)),
                                   {"kind": "repl", "dialect": d, "data": data, "x": x, "a": a, "b": b, "flags": b"g", "spell": 0, "start": 4, "end": 4 + len(expr), "q": q}, scan=(n % 17 == 0))
        rec.sample({"family": "operand-relations-" + DIALECTS[d], "expressions": n})
    elif kind == "cat4":
        menu = [b"a", b"", b"+b", b" "]
        n = run_cat(rec, itertools.product(menu, repeat=4), lambda k: [(b'"',) * k, (b"'",) * k, (b'"', b"'") * (k // 2)], tier)
        rec.sample({"family": "concat-4", "expressions": n})
    elif kind == "rev":
        n = 0
        for name, fn, typ, lab in REV:
            for c in contents(3 if tier == "quick" else 4):
                for q in (b'"', b"'"):
                    for i1, i2 in INNER:
                        expr = name + i1 + lit(c, q) + i2 + b")"
                        for pre, suf in EMBED:
                            data = pre + expr + suf
                            exp = (typ, c[::-1], lab, len(pre), len(pre) + len(expr))
                            if c[::-1] != c:
                                rec.mark("nontrivial", data, True)
                            n += 1
                            expect_one(rec, "C15.reverse", fn, data, exp, {"kind": "rev", "data": data, "content": c, "start": len(pre), "end": len(pre) + len(expr),
                                                                          "fn": name}, scan=(n % 11 == 0 and bool(c)))
        rec.sample({"family": "reverse", "expressions": n, "last": data})
    elif kind == "repl":
        d, i = unit[2], unit[3]
        xs = [b""] if i == len(CH) else [c for c in contents(3) if c[:1] == CH[i]]
        n = 0
        for x in xs:
            for a in contents(2):
                if not a:
                    continue
                if d == 3 and (any(ch in JS_META for ch in a)):
                    continue
                for b in (b"", b"b", b"a", a + a, b"_;"):
                    for q in (b'"', b"'"):
                        for sp, flags, spell in [(sp, fl, spl) for sp in SPACING[:2] + [(b"", b" ")] for fl in (JS_FLAGS if d == 3 else [b"g"])
                                                 for spl in (SPELLINGS if d != 3 else SPELLINGS[:1])]:
                            expr, fn, typ, lab = repl_expr(d, x, a, b, q, sp, flags, spell)
                            for pre, suf in EMBED[:2]:
                                data = pre + expr + suf
                                val = x.replace(a, b)
                                exp = (typ, val, lab, len(pre), len(pre) + len(expr))
                                if val != x:
                                    rec.mark("nontrivial", data, True)
                                n += 1
                                expect_one(rec, "C15.replace", fn, data, exp, {"kind": "repl", "dialect": d, "data": data, "x": x, "a": a, "b": b, "flags": flags, "spell": SPELLINGS.index(spell), "start": len(pre),
                                                                              "end": len(pre) + len(expr)}, scan=False)
        rec.sample({"family": "replace-" + DIALECTS[d], "expressions": n, "last": data})


def replay(w, rec):
    k = w.get("kind")
    data = w["data"]
    if k == "cat":
        exp = ("string", b"".join(w["contents"]), "concatenation", w["start"], w["end"])
        expect_one(rec, "C15.concat", concat.find_concat, data, exp, w, scan=True)
    elif k == "rev":
        for name, fn, typ, lab in REV:
            if name == w["fn"]:
                expect_one(rec, "C15.reverse", fn, data, (typ, w["content"][::-1], lab, w["start"], w["end"]), w, scan=True)
    elif k == "repl":
        _, fn, typ, lab = repl_expr(w["dialect"], w["x"], w["a"], w["b"], w.get("q", b'"'), SPACING[0], w.get("flags", b"g"), SPELLINGS[w.get("spell", 0)])
        expect_one(rec, "C15.replace", fn, data, (typ, w["x"].replace(w["a"], w["b"]), lab, w["start"], w["end"]), w)
