"""C05  Sibling results are laminar; raw hits inside a decoded region are suppressed."""
from __future__ import annotations

from mdmc import monitors, trees
from mdmc.engines import hitx
from mdmc.props import _engineprop as ep

ID = "C05"
TITLE = "Sibling results are laminar; raw hits inside a decoded region are suppressed"
TOTAL = "C05.scan-returns"

BOUNDS = {
    "quick": dict(
        full=[dict(N=4, K=2, depths=(1, 2, 3), modes=("r0", "rp"), grouped=(False,), hi=True, kinds=hitx.KINDS_HI),
              dict(N=4, K=2, depths=(1, 2, 3), modes=hitx.MODES, grouped=(False, True)),
              dict(N=4, K=3, depths=(1, 2), modes=("r0",), grouped=(False,)),
              dict(N=4, K=3, depths=(1, 2), modes=("r0", "rp"), grouped=(False,), kinds=hitx.KINDS_E),
              dict(N=4, K=3, depths=(1, 2), modes=("r0", "rp"), grouped=(False,), kinds=hitx.KINDS_LBL),
              dict(N=4, K=2, depths=(1, 2), modes=("r0", "rp", "rk"), grouped=hitx.HOWS),
              dict(N=4, K=3, depths=(1, 2, 3), modes=("rs",), grouped=(False,), kinds=hitx.KINDS_RS)],
        streams="quick"),
    "thorough": dict(
        full=[dict(N=4, K=3, depths=(1, 2, 3), modes=("r0", "rp"), grouped=(False,), hi=True, kinds=hitx.KINDS_HI),
              dict(N=5, K=2, depths=(1, 2, 3, 4), modes=hitx.MODES, grouped=(False, True)),
              dict(N=4, K=3, depths=(1, 2, 3), modes=hitx.MODES, grouped=(False,)),
              dict(N=5, K=3, depths=(2,), modes=("r0", "rd"), grouped=(False,)),
              dict(N=5, K=3, depths=(1, 2), modes=("r0", "rp"), grouped=(False,), kinds=hitx.KINDS_E),
              dict(N=4, K=4, depths=(2,), modes=("r0",), grouped=(False,), kinds=("p", "d1", "e")),
              dict(N=5, K=3, depths=(1, 2), modes=("r0", "rp"), grouped=(False,), kinds=hitx.KINDS_LBL),
              dict(N=4, K=3, depths=(1, 2), modes=("r0", "rp", "rk"), grouped=hitx.HOWS),
              dict(N=4, K=3, depths=(1, 2, 3), modes=("rs",), grouped=(False,), kinds=hitx.KINDS_RS)],
        ties=[dict(N=4, K=4, depths=(2,), modes=("r0",), grouped=(False,))],
        streams="thorough"),
}


def describe(tier):
    return {
        "rule": ep.RULE_PREFIX + ep.RULE_STRETCH + "Oracle: in every child list the scan built (decoder-supplied lists excluded by provenance) starts are non-decreasing and "
        "ends strictly increasing; for every pair of KEPT hits of one search where the later (in start asc / end desc / registry order) lies inside "
        "the earlier: the earlier is an undecoded context and the later is in its sub-tree -- a hit kept inside a decoded hit is a violation. "
        "Non-trivial = configuration/input where a decoded hit lies under a context at accumulated offset > 0 and a later hit ends inside it "
        "(the shape no unit test builds), counted from the reference machine's drop log. One block adds the kind `e` (a result with an EMPTY value, which the engine "
        "must discard before it can open, close or shadow anything) to every position of every <=3-hit configuration.",
        "bounds": BOUNDS[tier],
        "assumptions": ["scans that raise or hang are counted and left to C01"],
        "exhaustive": True,
    }


def plan(tier, seed):
    return [(tier,) + u for u in ep.plan(BOUNDS[tier])] + ep.interp_units(tier)


def on_run(rec, run, w, size):
    lists, pairs = monitors.c05(rec, run.impl, run.log, w, size)
    rec.count("child_lists_checked", lists)
    rec.count("containment_pairs", pairs)
    rec.mark("outcomes", trees.shape(run.impl))
    # non-trivial: the model dropped a hit as in-decoded while a context with start>0 was open
    if run.trace.dropped and any(r == "in-decoded" for r, _ in run.trace.dropped) and any(s[0] and s[0][0][0] > 0 for s in run.trace.states):
        rec.mark("nontrivial", (run.T, run.hits, run.depth, run.mode, run.grouped))


def on_case(rec, case):
    rec.count("traces")
    rec.count("transitions", len(case.log.hits))
    lists, pairs = monitors.c05(rec, case.tree, case.log, case.witness(), case.size)
    rec.count("child_lists_checked", lists)
    rec.count("containment_pairs", pairs)
    rec.mark("outcomes", trees.shape(case.tree))
    if pairs:
        rec.mark("nontrivial", case.data)


def run_unit(unit, rec):
    ep.run_unit(unit[1:], rec, BOUNDS[unit[0]], TOTAL, on_run, on_case)


def replay(w, rec):
    ep.replay(w, rec, TOTAL, on_run, on_case)
