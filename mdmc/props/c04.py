"""C04  Context preservation: nesting never changes which bytes a result denotes."""
from __future__ import annotations

from mdmc import monitors, trees
from mdmc.engines import hitx
from mdmc.props import _engineprop as ep

ID = "C04"
TITLE = "Context preservation: nesting never changes which bytes a result denotes"
TOTAL = "C04.scan-returns"

BOUNDS = {
    "quick": dict(
        full=[dict(N=4, K=2, depths=(1, 2, 3), modes=("r0", "rp"), grouped=(False,), hi=True, kinds=hitx.KINDS_HI),
              dict(N=4, K=2, depths=(1, 2, 3), modes=hitx.MODES, grouped=(False, True)),
              dict(N=4, K=3, depths=(2,), modes=("r0",), grouped=(False,)),
              dict(N=4, K=3, depths=(1, 2), modes=("r0", "rp"), grouped=(False,), kinds=hitx.KINDS_LBL),
              dict(N=4, K=2, depths=(1, 2), modes=("r0", "rp", "rk"), grouped=hitx.HOWS)],
        streams="quick"),
    "thorough": dict(
        full=[dict(N=4, K=3, depths=(1, 2, 3), modes=("r0", "rp"), grouped=(False,), hi=True, kinds=hitx.KINDS_HI),
              dict(N=5, K=2, depths=(1, 2, 3, 4), modes=hitx.MODES, grouped=(False, True)),
              dict(N=4, K=3, depths=(1, 2, 3), modes=hitx.MODES, grouped=(False,)),
              dict(N=5, K=3, depths=(2,), modes=("r0", "rp"), grouped=(False,)),
              dict(N=5, K=3, depths=(1, 2), modes=("r0", "rp"), grouped=(False,), kinds=hitx.KINDS_LBL),
              dict(N=4, K=3, depths=(1, 2), modes=("r0", "rp", "rk"), grouped=hitx.HOWS)],
        ties=[dict(N=4, K=4, depths=(2,), modes=("r0",), grouped=(False,))],
        streams="thorough"),
}


def describe(tier):
    return {
        "rule": ep.RULE_PREFIX + ep.RULE_STRETCH + "Oracle for EVERY hit object that is in the final tree, against what its decoder returned (text searched, [a,b) at "
        "return time): sum of start offsets along its chain of enclosing context nodes of the same search == a; end-start == b-a; the node "
        "under which that chain hangs has the searched text as value; original slice == text[a:b] ignoring ASCII case. "
        "Non-trivial = a configuration/input with a kept hit under >=1 context whose accumulated offset is non-zero.",
        "bounds": BOUNDS[tier],
        "assumptions": ["scans that raise or hang are counted and left to C01",
                        "decoder-supplied sub-structure is excluded (its spans are the decoder's, see C03/C12)"],
        "exhaustive": True,
    }


def plan(tier, seed):
    return [(tier,) + u for u in ep.plan(BOUNDS[tier])] + ep.interp_units(tier)


def on_run(rec, run, w, size):
    checked, deep = monitors.c04(rec, run.impl, run.log, w, size)
    rec.count("hits_checked", checked)
    rec.mark("outcomes", trees.shape(run.impl))
    if deep:
        rec.mark("nontrivial", (run.T, run.hits, run.depth, run.mode, run.grouped))


def on_case(rec, case):
    rec.count("traces")
    rec.count("transitions", len(case.log.hits))
    checked, deep = monitors.c04(rec, case.tree, case.log, case.witness(), case.size)
    rec.count("hits_checked", checked)
    rec.mark("outcomes", trees.shape(case.tree))
    if deep:
        rec.mark("nontrivial", case.data)


def run_unit(unit, rec):
    ep.run_unit(unit[1:], rec, BOUNDS[unit[0]], TOTAL, on_run, on_case)


def replay(w, rec):
    ep.replay(w, rec, TOTAL, on_run, on_case)
