"""C08  Sub-results of a decoded node are exactly a scan of its decoded value."""
from __future__ import annotations

from multidecoder.multidecoder import Multidecoder
from multidecoder.node import Node

from mdmc import core, trees
from mdmc.engines import hitx, streams
from mdmc.props import _engineprop as ep

ID = "C08"
TITLE = "Sub-results of a decoded node are exactly a scan of its decoded value"
TOTAL = "C08.scan-returns"

BOUNDS = {
    "quick": dict(
        full=[dict(N=4, K=2, depths=(1, 2, 3), modes=("r0", "rp"), grouped=(False,), hi=True, kinds=hitx.KINDS_HI),
              dict(N=4, K=2, depths=(1, 2, 3, 4), modes=("rp", "rd", "rk"), grouped=(False,)),
              dict(N=3, K=3, depths=(2, 3), modes=("rp", "rd"), grouped=(False,)),
              dict(N=4, K=3, depths=(1, 2), modes=("r0", "rp"), grouped=(False,), kinds=hitx.KINDS_LBL),
              dict(N=4, K=2, depths=(1, 2), modes=("r0", "rp", "rk"), grouped=hitx.HOWS),
              dict(N=4, K=3, depths=(1, 2, 3), modes=("rs",), grouped=(False,), kinds=hitx.KINDS_RS)],
        streams="quick"),
    "thorough": dict(
        full=[dict(N=4, K=3, depths=(1, 2, 3), modes=("r0", "rp"), grouped=(False,), hi=True, kinds=hitx.KINDS_HI),
              dict(N=5, K=2, depths=(1, 2, 3, 4), modes=hitx.MODES, grouped=(False, True)),
              dict(N=4, K=3, depths=(2, 3), modes=("rp", "rd", "rk"), grouped=(False,)),
              dict(N=5, K=3, depths=(1, 2), modes=("r0", "rp"), grouped=(False,), kinds=hitx.KINDS_LBL),
              dict(N=4, K=3, depths=(1, 2), modes=("r0", "rp", "rk"), grouped=hitx.HOWS),
              dict(N=4, K=3, depths=(1, 2, 3), modes=("rs",), grouped=(False,), kinds=hitx.KINDS_RS)],
        streams="thorough"),
}


def describe(tier):
    return {
        "rule": ep.RULE_PREFIX + ep.RULE_STRETCH + "Oracle for EVERY decoded node without decoder-supplied sub-structure (provenance from the wrappers) in every "
        "tree: its child list == children of scan_node(Node(same type, same value), remaining depth) on a fresh scanner with the same, "
        "uninstrumented registry, where remaining depth = k - (level of the search that produced the node) - 1. Because the second scan "
        "sees only (type, value, depth), equality for every embedding also establishes that surroundings and position have no influence. "
        "Inputs with 3 to 5000 (32 771) encoded blobs: first, second, middle and last decoded node compared the same way. Non-trivial = a decoded node with a non-empty child list (distinct by (type, value, children)).",
        "bounds": BOUNDS[tier],
        "assumptions": ["scans that raise or hang are counted and left to C01", "decoders are pure (C09)"],
        "exhaustive": True,
    }


MANY = {"quick": (1, 2, 100, 1023, 1024, 1025, 4095, 4096, 4097, 5000), "thorough": (1, 2, 100, 1023, 1024, 1025, 4095, 4096, 4097, 5000, 8192, 16385, 32769)}


def plan(tier, seed):
    return [(tier,) + u for u in ep.plan(BOUNDS[tier])] + [(tier, "many", n) for n in MANY[tier]] + ep.interp_units(tier)


def run_many(rec, n):
    """n encoded blobs in one input: the first, the middle and the last decoded node must all equal an isolated scan of their value."""
    from multidecoder.registry import get_analyzers

    reg = get_analyzers(include=["hex", "network", "filename"])
    blob = b"http://evil.example.com/payload.exe ".hex().encode()
    filler = [("%020d" % i).encode().hex().encode() for i in range(n)]
    data = blob + b" " + b" ".join(filler) + b" " + blob
    w = {"engine": "many", "n": n}
    rec.count("evaluations")
    rec.mark("states", 0, True)
    ok, res = rec.guard(TOTAL, w, n, trees.iscan, reg, data, 10, limit=120)
    if not ok:
        return
    tree, log = res
    rec.count("traces")
    rec.count("transitions", len(log.hits))
    rec.mark("nontrivial", 0, True)
    decoded = [c for c in tree.children if c.obfuscation == "decoded.hexadecimal"]
    if len(decoded) != n + 2:
        rec.violation("C08.children-equal-isolated-scan", "many|blob-count", w, f"{n + 2} hex blobs in the input, {len(decoded)} decoded nodes", n)
        return
    for idx in sorted({0, 1, len(decoded) // 2, len(decoded) - 2, len(decoded) - 1}):
        node = decoded[idx]
        exp = Multidecoder(reg).scan_node(Node(node.type, node.value), 9)
        got = tuple(trees.tup(c) for c in node.children)
        want = tuple(trees.tup(c) for c in exp.children)
        if got != want:
            rec.violation("C08.children-equal-isolated-scan", "many|position-dependent", w,
                          f"decoded node #{idx} of {len(decoded)} in one scan has children {core.short(got, 120)}; an isolated scan of its value gives {core.short(want, 120)}", n)
    rec.sample({"engine": "many", "blobs": n + 2, "input_bytes": len(data)})


def check(rec, tree, log, registry, k, w, size):
    level = {sid: frames - 1 for sid, frames, _ in log.searches}
    n_checked = 0
    for n in trees.walk(tree):
        h = log.hits.get(id(n))
        if h is None or id(n) in log.has_kids or n.parent is None:
            continue
        sid, _, _, text, a, b = h
        if 0 <= a <= b <= len(text) and n.value.lower() == text[a:b].lower():
            continue  # undecoded context
        remaining = k - level[sid] - 1
        n_checked += 1
        core.WATCH.serial += 1
        try:
            exp = Multidecoder(registry).scan_node(Node(n.type, n.value), remaining)
        except Exception:  # noqa: BLE001
            rec.note("isolated scan raised (reported by C01)")
            continue
        got = tuple(trees.tup(c) for c in n.children)
        want = tuple(trees.tup(c) for c in exp.children)
        if got:
            rec.mark("nontrivial", (n.type, n.value, got))
        if got != want:
            kind = "missing" if len(got) < len(want) else ("extra" if len(got) > len(want) else "different")
            rec.violation("C08.children-equal-isolated-scan", f"{kind}|remaining={min(max(remaining, 0), 3)}", w,
                          f"decoded node {n.type!r} {core.short(n.value, 40)} (remaining depth {remaining}): children in the tree "
                          f"{core.short(got, 160)} != children of an isolated scan {core.short(want, 160)}", size)
    return n_checked


def on_run(rec, run, w, size):
    rec.mark("outcomes", trees.shape(run.impl))
    rec.count("decoded_nodes_checked", check(rec, run.impl, run.log, run.ireg, run.depth, w, size))


def on_case(rec, case):
    rec.count("traces")
    rec.count("transitions", len(case.log.hits))
    rec.mark("outcomes", trees.shape(case.tree))
    rec.count("decoded_nodes_checked", check(rec, case.tree, case.log, streams.registry(), case.depth, case.witness(), case.size))


def run_unit(unit, rec):
    if unit[1] == "many":
        run_many(rec, unit[2])
        return
    ep.run_unit(unit[1:], rec, BOUNDS[unit[0]], TOTAL, on_run, on_case)


def replay(w, rec):
    if w.get("engine") == "many":
        run_many(rec, w["n"])
        return
    ep.replay(w, rec, TOTAL, on_run, on_case)
