"""C09  Results are reproducible: a function of input, depth and configuration only."""
from __future__ import annotations

import functools
import itertools
import json
import os
import subprocess
import sys
import types

import multidecoder
from multidecoder import registry as mdreg
from multidecoder.json_conversion import tree_to_json
from multidecoder.multidecoder import Multidecoder

from mdmc import core, families, trees
from mdmc.engines import schedx

ID = "C09"
FRESH_PROCESS_PER_UNIT = True
TITLE = "Results are reproducible: a function of input, depth and configuration only"

PAIRS = [
    (("concat", "filename"), b'x strlen "a.e"+"xe" y', b'"fo" & "o" StrLen'),
    (("concat", "filename"), b'"a" + "b" strlen', b'"a" + "b" strlen'),
    (("shell", "network", "base64"), b"cmd /c p^owershell -e ZQBjAGgAbwAgAGIAZQBlAA==", b"http://ex%61mple.com/a/../b?q#f 8.8.4.4 strlen"),
    (("base64", "hex", "powershell"), b"FromBase64String('R1ZASA==') -bxor 35", b"FromBase64String('R1ZASA==') -bxor 35"),
    (("base64", "hex", "powershell"), b"x FromBase64String('R1ZASA==')\n-bxor 35", b"FromHexString('4756404803444c4650035256424048') plain"),
    (("xml", "hex", "path", "vba"), b"&#104;&#116;&#116;&#112;&#58;&#47;&#47;&#97;&#46;&#99;&#111; StrReverse('exe.a') StrLen", b"\\\\a.com\\abc\\x.exe 687474703a2f2f6578616d706c652e636f6d"),
]
BOUND = {"quick": {0: 1, 1: 1, 2: 1, 3: 1, 4: 1, 5: 1}, "thorough": {0: 2, 1: 2, 2: 1, 3: 1, 4: 2, 5: 1}}
CHUNK = {"quick": 64, "thorough": 12}
_B64_2 = b"YUhSMGNEb3ZMMlY0WVcxd2JHVXVZMjl0TDJFdVpYaGxJRGd1T0M0MExqUT0="  # base64(base64("http://example.com/a.exe 8.8.4.4"))
HIST_INPUTS = [b'x strlen "a.e"+"xe" y', b"x cmd /c ping 8.8.4.4 http://a.com/b.exe bob@example.org StrLen \\\\a.com\\abc\\x.dll 'a'+'b'",
               b"cmd /c p^owershell -e ZQBjAGgAbwAgAGIAZQBlAA==", b"run " + _B64_2 + b" and again " + _B64_2, b"see www.Contoso.com and files.Fabrikam.net now",
               b"see www.contoso.com and files.fabrikam.net now"]
HIST_EVENTS = [(i, k) for i in range(len(HIST_INPUTS)) for k in (10, 2)] + [(3, 1), (3, 3)]
HIST_DEPTH = {"quick": 3, "thorough": 4}
WITNESS = [b"run: cmd /c start http://evil.example.com/a.exe now 'a'+'b' (x cmd /c echo aHR0cDovL2V4YW1wbGUuY29tL2EuZXhlIDguOC40LjQ=)", b"call strlen and StrLen then STRLEN; AutoOpen cmd windows http user-agent", b'"str" & "len" strlen', b"x StrLen(y) + powershell -e ZQBjAGgAbwAgAGIAZQBlAA=="]


def xor_tie_input(key=b"\x5a\xc3\x17\x88", n=160):
    """A PowerShell byte array xor-ed with a 4-byte key that is not a literal (so the multi-byte key guesser runs) in which two key columns have two
    equally frequent byte values: the guesser has several equally good candidate keys and must pick among them deterministically."""
    lo = [0x10, 0x20] * (3 * n // 8) + [0x30] * (n - 2 * (3 * n // 8))
    mi = [0x00, 0x01] * (7 * n // 16) + [0x02] * (n - 2 * (7 * n // 16))
    st = 12345
    for vals in (lo, mi):
        for i in range(len(vals) - 1, 0, -1):
            st = (st * 1103515245 + 12345) % 2**31
            j = st % (i + 1)
            vals[i], vals[j] = vals[j], vals[i]
    plain = b"".join(bytes([a, b, 0, 0]) for a, b in zip(lo, mi))
    cipher = bytes(c ^ key[i % len(key)] for i, c in enumerate(plain))
    arr = ", ".join("0x%02x" % c for c in cipher)
    return ("[Byte[]] $buf = %s\nfor ($i = 0; $i -lt $buf.Length; $i++) { $buf[$i] = $buf[$i] -bxor $key[$i %% $key.Length] }\n" % arr).encode()


WITNESS.append(xor_tie_input())
WITNESS.append(xor_tie_input(b"K3y", 200))
SEEDS = {"quick": range(0, 4), "thorough": range(0, 16)}
SHIPPED_KW = os.path.join(os.path.dirname(multidecoder.__file__), "keywords")


def describe(tier):
    return {
        "rule": (
            "E4 schedx, four exhaustive explorations. (1) Threads: 6 harnesses of 2 threads (incl. the same xor-keyed input in both threads and an xor-keyed against an xor-free input) sharing ONE Multidecoder built by the real build_registry; every "
            "`line` event in multidecoder frames is a scheduling point; ALL schedules with <= B preemptions are executed (iterative context bounding, B per "
            f"harness = {BOUND[tier]}); oracle: each thread's tree equals the tree of the same input computed sequentially beforehand, and a sequential "
            "scan on the shared scanner afterwards is still correct; a replayed prefix that diverges is a hard error. (2) Histories: BFS over ALL sequences "
            f"of <= {HIST_DEPTH[tier]} scan events on one instance from {len(HIST_EVENTS)} events = (one of {len(HIST_INPUTS)} inputs incl. nested base64 and case variants of one domain) x (depth limit 10 / 2 / 1 / 3); a state is the hash of every mutable object reachable from the scanner and "
            "from multidecoder.* module globals (lists, dicts, sets, defaults, closures, functools caches); every transition's result must equal the "
            "fresh-scanner result. (2b) every input of the mix/shell/net/concat/kw scan-level families is scanned at depth 10, 1, 10 on one long-lived scanner: first and third tree must be equal, the first tree must not change while the later scans run, and the depth-1 tree must equal that of a scanner only ever used at depth 1. (3) Enumeration orders: ALL permutations of the iteration order of every keyword set and of every directory listing "
            "of the fixture keyword directory (seams: multidecoder.registry.set, os.walk), and for the shipped keywords ALL relative orders of the files of "
            "every group of files that share a word ignoring case; the trees of witness inputs must all be equal. (3b) every set of str/bytes built by ANY multidecoder.* module while a witness is scanned "
            f"(seam: `set`/`frozenset` in each module namespace) is iterated in each of the orders {SET_ORDERS}; witnesses include xor-ed byte arrays with tied key candidates (multi-byte key guesser). (3c) six pairs of inputs that agree on their first 4 KiB / 64 KiB and differ afterwards (two PE images with the same header page, long texts, base64, hex, UTF-16) in 5 histories x shared / fresh scanner, each history in a fresh process, every tree compared with the single-input fresh-process tree. (3d) one bytearray refilled in place and scanned again (all histories of 3 out of 7 blocks x depth 10 / 1 x shipped / fixture registry) against reference trees computed beforehand from bytes objects; the list returned by each of the 157 default registry entries is appended to and the call repeated. (4) Processes: the same witness inputs "
            f"and the CLI in fresh processes under PYTHONHASHSEED {list(SEEDS[tier])[0]}..{list(SEEDS[tier])[-1]} (and interpreter optimisation levels none / -O / -OO) must give byte-identical JSON, equal to the in-process result. "
            "states = distinct scheduler switch points (thread-0 location, thread-1 location) + history states + registry orders, transitions = scheduler steps + "
            "history transitions, traces = executions compared. Non-trivial = schedule in which a preemption really interleaved two scans (both threads alive)."
        ),
        "bounds": {"preemption_bound": BOUND[tier], "history_depth": HIST_DEPTH[tier], "seeds": list(SEEDS[tier])},
        "assumptions": ["line granularity in multidecoder frames; C extension calls (regex, binascii) are atomic under the GIL",
                        "2 threads; 2^32 hash seeds as such are replaced by enumerating the iteration orders they can induce"],
        "exhaustive": True,
    }


# ---- (1) threads ------------------------------------------------------------------------------------------------

_H = {}


def harness(pi):
    if pi not in _H:
        inc, a, b = PAIRS[pi]
        reg = mdreg.build_registry(families.FIXTURE_KW, include=list(inc))
        md = Multidecoder(reg)
        exp = [trees.tup(md.scan(a)), trees.tup(md.scan(b))]
        if not (exp[0][5] and exp[1][5]):
            raise core.HarnessError(f"thread harness {pi} is vacuous: a scan finds nothing")
        _H[pi] = (md, (a, b), exp)
    return _H[pi]


def baseline_points(pi):
    md, (a, b), exp = harness(pi)
    s, res = schedx.run([lambda: md.scan(a), lambda: md.scan(b)], [])
    return len(s.trace)


def plan(tier, seed):
    units = []
    for pi in range(len(PAIRS)):
        n = baseline_points(pi)
        step = CHUNK[tier] if BOUND[tier][pi] >= 2 else 64
        for lo in range(0, n, step):
            units.append(("threads", tier, pi, lo, min(n, lo + step)))
    units += [("history", tier, i, 7) for i in range(7)]
    from mdmc.engines import streams
    units += [("twice", u) for u in streams.plan(tier, lite=0, fams=["mix", "ctx"])]
    units += [("twice", u) for u in streams.plan(tier, lite=1 if tier == "quick" else 0, fams=["shell", "net", "concat", "kw", "esc", "b64hex"])]
    units += [("orders-fixture", i, 8) for i in range(8)]
    units += [("orders-shipped", i, 8) for i in range(8)]
    units.append(("seeds", tier))
    units += [("setorder", i) for i in range(len(WITNESS))]
    units += [("prefix", i) for i in range(len(prefix_pairs()))]
    units += [("returned-lists", i, 8) for i in range(8)]
    units += [("buffer-reuse", which) for which in ("shipped", "fixture")] + [("orders-include",)]
    return units


def run_threads(rec, tier, pi, lo, hi, only_prefix=None):
    md, (a, b), exp = harness(pi)
    stats = {"schedules": 0, "steps": 0}

    def factory():
        return [lambda: md.scan(bytes(a)), lambda: md.scan(bytes(b))]

    def check(s, res, prefix):
        rec.count("evaluations")
        rec.count("traces")
        nz = [i for i, t in enumerate(s.trace) if t[1]]
        w = {"kind": "schedule", "harness": pi, "choices": prefix, "preemption_points": [list(s.trace[i][2]) for i in nz]}
        size = len(nz) * 100000 + (nz[0] if nz else 0)
        for t in s.trace:
            if t[1]:
                rec.mark("states", t[2])
        if nz:
            rec.mark("nontrivial", tuple(prefix))
        for ti in (0, 1):
            st, val = res[ti]
            if st != "ok":
                sig, detail = core.crash_sig(val)
                rec.violation("C09.threads.no-exception", f"thread-raised|{sig}", w, f"thread {ti} raised under schedule with preemptions at {w['preemption_points']}: {detail}", size)
            else:
                got = trees.tup(val)
                rec.mark("outcomes", (ti, got))
                if got != exp[ti]:
                    rec.violation("C09.threads.same-tree", f"thread-tree-differs|harness{pi}", w,
                                  f"thread {ti} (input {[a, b][ti]!r}) under a schedule with preemptions at {w['preemption_points']} returned {core.short(got, 200)}; "
                                  f"sequentially the same scanner returns {core.short(exp[ti], 200)}", size)
        if stats["schedules"] % 25 == 0:
            poisoned(rec, md, (a, b), exp, w, size)

    if only_prefix is not None:
        schedx.explore(factory, check, 0, tuple(only_prefix), stats)
    else:
        B = BOUND[tier][pi]
        if lo == 0:
            schedx.explore(factory, check, 0, (), stats)  # the default schedule itself
        schedx.explore_range = None
        # branch at first-preemption indices lo..hi-1, each with B-1 further preemptions
        s0, _ = schedx.run(factory(), [])
        for i in range(lo, min(hi, len(s0.trace))):
            schedx.explore(factory, check, B - 1, (0,) * i + (1,), stats)
    poisoned(rec, md, (a, b), exp, {"kind": "schedule", "harness": pi, "choices": [], "note": "after unit"}, 10**7)
    rec.count("transitions", stats["steps"])
    rec.sample({"harness": pi, "inputs": [a, b], "first_preemption_range": [lo, hi], "schedules": stats["schedules"], "bound": BOUND[tier][pi]})


def poisoned(rec, md, inputs, exp, w, size):
    for i, d in enumerate(inputs):
        got = trees.tup(md.scan(d))
        if got != exp[i]:
            rec.violation("C09.threads.scanner-poisoned", "shared-scanner-poisoned", w, f"after the concurrent scans a sequential scan of {d!r} on the shared scanner returns {core.short(got, 200)}", size)


# ---- (2) histories ------------------------------------------------------------------------------------------------


def canon(o, depth=0, seen=None):
    if seen is None:
        seen = set()
    if isinstance(o, (bytes, str, int, float, bool, type(None))):
        return o
    if id(o) in seen or depth > 6:
        return "<seen>"
    seen.add(id(o))
    if isinstance(o, (list, tuple)):
        return (type(o).__name__,) + tuple(canon(x, depth + 1, seen) for x in o)
    if isinstance(o, (set, frozenset)):
        return (type(o).__name__,) + tuple(sorted((canon(x, depth + 1, seen) for x in o), key=repr))
    if isinstance(o, dict):
        return ("dict",) + tuple(sorted(((repr(k), canon(v, depth + 1, seen)) for k, v in o.items()), key=repr))
    if isinstance(o, functools.partial):
        return ("partial", canon(o.func, depth + 1, seen), canon(o.args, depth + 1, seen), canon(o.keywords, depth + 1, seen))
    if isinstance(o, types.FunctionType):
        cells = tuple(canon(c.cell_contents, depth + 1, seen) for c in (o.__closure__ or ()) if _cell_ok(c))
        ci = getattr(o, "cache_info", None)
        return ("fn", o.__module__, o.__qualname__, canon(o.__defaults__, depth + 1, seen), canon(o.__kwdefaults__, depth + 1, seen), cells, canon(dict(o.__dict__), depth + 1, seen),
                tuple(ci()) if callable(ci) else None)
    ci = getattr(o, "cache_info", None)
    if callable(ci):
        try:
            return ("cached", tuple(ci()))
        except Exception:  # noqa: BLE001
            return ("cached", "?")
    if hasattr(o, "__dict__") and type(o).__module__.startswith("multidecoder"):
        return (type(o).__name__, canon(dict(o.__dict__), depth + 1, seen))
    if hasattr(o, "__slots__") and type(o).__module__.startswith("multidecoder"):
        return (type(o).__name__,) + tuple(canon(getattr(o, s, None), depth + 1, seen) for s in o.__slots__ if s != "parent")
    return type(o).__name__


def _cell_ok(c):
    try:
        c.cell_contents
        return True
    except ValueError:
        return False


def snapshot(md):
    parts = [canon(md.__dict__)]
    for name, mod in sorted(sys.modules.items()):
        if name.startswith("multidecoder") and mod is not None:
            g = {}
            for k, v in vars(mod).items():
                if k.startswith("__") or isinstance(v, types.ModuleType):
                    continue
                if isinstance(v, (list, dict, set, bytearray, functools.partial, types.FunctionType)) or callable(getattr(v, "cache_info", None)):
                    if k == "TOP_LEVEL_DOMAINS":
                        g[k] = len(v)
                    else:
                        g[k] = canon(v)
            parts.append((name, canon(g)))
    return core.h64(repr(parts))


FRESH_CHILD = r"""
import sys, json
sys.path.insert(0, sys.argv[1]); sys.path.insert(1, sys.argv[2])
from multidecoder.multidecoder import Multidecoder
from multidecoder.registry import build_registry
from mdmc import trees, core
data = bytes.fromhex(sys.argv[4])
print(json.dumps(core.jsonable(trees.tup(Multidecoder(build_registry(sys.argv[3])).scan(data, int(sys.argv[5]))))))
"""


def fresh_process_scan(data, k):
    r = subprocess.run([sys.executable, "-c", FRESH_CHILD, core.REPO_SRC, core.VERIF, families.FIXTURE_KW, data.hex(), str(k)], capture_output=True, text=True, timeout=300)
    if r.returncode != 0:
        raise core.HarnessError("fresh-process scan failed: " + r.stderr[-300:])
    return _totuple(core.unjson(json.loads(r.stdout)))


def _totuple(x):
    return tuple(_totuple(v) for v in x) if isinstance(x, list) else x


def run_history(rec, tier, part=0, nparts=1):
    """BFS over all sequences of <= D scan events (input, depth limit) on ONE scanner; unit `part` owns the sequences whose first event
    index is congruent to part."""
    reg = mdreg.build_registry(families.FIXTURE_KW)
    # the reference result of every event comes from its own fresh PROCESS: a module-level cache would make an in-process "fresh scanner" stale
    fresh = {}
    for (i, k) in HIST_EVENTS:
        fresh[(i, k)] = fresh_process_scan(HIST_INPUTS[i], k)
    D = HIST_DEPTH[tier]

    def build(hist):
        md = Multidecoder(reg)
        outs = [trees.tup(md.scan(HIST_INPUTS[HIST_EVENTS[e][0]], HIST_EVENTS[e][1])) for e in hist]
        return md, outs

    md0, _ = build(())
    seen = {snapshot(md0)}
    n_tr = 0
    frontier = [(e,) for e in range(len(HIST_EVENTS)) if e % nparts == part]
    for depth in range(1, D + 1):
        for h2 in frontier:
            rec.count("evaluations")
            md, outs = build(h2)
            rec.count("traces")
            n_tr += 1
            ev = HIST_EVENTS[h2[-1]]
            w = {"kind": "history", "history": [list(HIST_EVENTS[e]) for e in h2]}
            if outs[-1] != fresh[ev]:
                rec.violation("C09.history.same-tree", f"history-changes-result|len={len(h2)}", w,
                              f"after the scan history {w['history'][:-1]} (input index, depth limit) the scan of {HIST_INPUTS[ev[0]]!r} with depth limit {ev[1]} returns "
                              f"{core.short(outs[-1], 200)}; a fresh scanner returns {core.short(fresh[ev], 200)}", len(h2))
            if depth > 1:
                rec.mark("nontrivial", h2)
            k = snapshot(md)
            rec.mark("states", ("hist", k))
            seen.add(k)
        # a stateless library collapses to one state with |alphabet| self-loops; every history is still extended to depth D so that the
        # state reached from elsewhere is compared as well (differential oracle)
        frontier = [h + (e,) for h in frontier for e in range(len(HIST_EVENTS))] if depth < D else []
    rec.count("transitions", n_tr)
    rec.sample({"history_events(input index, depth limit)": [list(e) for e in HIST_EVENTS], "depth": D, "distinct_library_states": len(seen), "transitions": n_tr})
    if len(seen) > 1:
        rec.note("library state changed during scans (more than one reachable state)")


# ---- (3) enumeration orders ---------------------------------------------------------------------------------------


class Seams:
    """Temporarily own the two enumeration-order seams of get_keywords: `set` (resolved through the module namespace) and os.walk."""

    def __init__(self, set_order, walk_order):
        self.set_order, self.walk_order = set_order, walk_order

    def __enter__(self):
        order = self.set_order

        class PermSet(set):
            def __iter__(s):
                items = sorted(set.__iter__(s))
                return iter(order(items))

            # set algebra keeps the seam: the result of include.intersection(...) / a & b / a | b is iterated in the chosen order too
            def intersection(s, *o):
                return PermSet(set.intersection(s, *o))

            def union(s, *o):
                return PermSet(set.union(s, *o))

            def difference(s, *o):
                return PermSet(set.difference(s, *o))

            def copy(s):
                return PermSet(set.copy(s))

            __and__ = lambda s, o: PermSet(set.__and__(s, o))  # noqa: E731
            __or__ = lambda s, o: PermSet(set.__or__(s, o))  # noqa: E731
            __sub__ = lambda s, o: PermSet(set.__sub__(s, o))  # noqa: E731
            __rand__ = __and__

        self._had = "set" in vars(mdreg)
        self._old = vars(mdreg).get("set")
        mdreg.set = PermSet
        self._walk = os.walk
        wo = self.walk_order
        real = os.walk

        def walk(top, *a, **k):
            for sub, dirs, files in real(top, *a, **k):
                dirs[:] = wo(sorted(dirs))
                yield sub, dirs, wo(sorted(files))

        os.walk = walk
        return self

    def __exit__(self, *exc):
        os.walk = self._walk
        if self._had:
            mdreg.set = self._old
        else:
            del mdreg.set


def perm_fn(perm_index):
    def f(items):
        items = list(items)
        perms = list(itertools.permutations(range(len(items)))) if len(items) <= 4 else [tuple(range(len(items))), tuple(reversed(range(len(items))))]
        p = perms[perm_index % len(perms)]
        return [items[i] for i in p]

    return f


def witness_trees(reg):
    md = Multidecoder(reg)
    return tuple(trees.tup(md.scan(d)) for d in WITNESS)


def run_orders_fixture(rec, part, nparts):
    base = witness_trees(mdreg.build_registry(families.FIXTURE_KW, include=["concat", "shell"]))
    combos = [(sp, wp) for sp in range(24) for wp in range(24)]
    n = 0
    for ci in range(part, len(combos), nparts):
        sp, wp = combos[ci]
        rec.count("evaluations")
        rec.mark("states", ("order", sp, wp), True)
        with Seams(perm_fn(sp), perm_fn(wp)):
            reg = mdreg.build_registry(families.FIXTURE_KW, include=["concat", "shell"])
        rec.count("traces")
        rec.count("transitions", len(reg))
        if sp or wp:
            rec.mark("nontrivial", 0, True)
        got = witness_trees(reg)
        n += 1
        if got != base:
            which = [i for i in range(len(WITNESS)) if got[i] != base[i]][0]
            rec.violation("C09.orders.same-tree", f"order-dependent|{'set' if wp == 0 else ('walk' if sp == 0 else 'both')}", {"kind": "order", "set_perm": sp, "walk_perm": wp},
                          f"with keyword-set iteration permutation #{sp} and directory listing permutation #{wp} the scan of {WITNESS[which]!r} returns "
                          f"{core.short(got[which], 200)} instead of {core.short(base[which], 200)}", sp + wp)
    rec.sample({"fixture_orders": n, "permutation_indices": "set 0..23 x walk 0..23 (every set/listing of <= 4 entries in every order)"})


def shipped_groups():
    files = {}
    for sub, _, fs in os.walk(SHIPPED_KW):
        for f in fs:
            with open(os.path.join(sub, f), "rb") as fh:
                files[f] = {x.lower() for x in fh.read().splitlines() if x}
    words = {}
    for f, ws in files.items():
        for w_ in ws:
            words.setdefault(w_, set()).add(f)
    groups = {}
    for w_, fs in words.items():
        if len(fs) > 1:
            groups.setdefault(tuple(sorted(fs)), w_)
    return sorted(groups.items())


def run_orders_shipped(rec, part, nparts):
    groups = shipped_groups()
    base_reg = mdreg.build_registry()
    n = 0
    for gi in range(part, len(groups), nparts):
        fs, word = groups[gi]
        text = b"x " + word + b" y " + word.upper() + b" z"
        base = trees.tup(Multidecoder(base_reg).scan(text))
        if not base[5]:
            raise core.HarnessError(f"order witness for {fs} finds nothing")
        for perm in itertools.permutations(range(len(fs))):
            ranked = {fs[i]: r for r, i in enumerate(perm)}

            def wo(items, ranked=ranked):
                items = list(items)
                slots = [i for i, x in enumerate(items) if x in ranked]
                chosen = sorted((items[i] for i in slots), key=lambda x: ranked[x])
                for i, x in zip(slots, chosen):
                    items[i] = x
                return items

            rec.count("evaluations")
            rec.mark("states", ("shipped-order", fs, perm), True)
            with Seams(lambda items: list(reversed(items)) if sum(perm) % 2 else list(items), wo):
                reg = mdreg.build_registry()
            rec.count("traces")
            rec.count("transitions", len(reg))
            rec.mark("nontrivial", 0, True)
            got = trees.tup(Multidecoder(reg).scan(text))
            n += 1
            if got != base:
                rec.violation("C09.orders.same-tree", "order-dependent|shipped", {"kind": "shipped-order", "files": list(fs), "perm": list(perm), "word": word},
                              f"listing the keyword files {fs} in order {perm} changes the tree for {text!r}: {core.short(got, 200)} vs {core.short(base, 200)}", len(fs))
    rec.sample({"shipped_file_groups_sharing_a_word": len(groups), "orders_checked_here": n})


# ---- (3b) set iteration order anywhere in the library ------------------------------------------------------------------------

SET_ORDERS = ["sorted", "reversed", "rotate1", "rotate-1", "evens-first"]


def _order(name, items):
    if name == "reversed":
        return items[::-1]
    if name == "rotate1":
        return items[1:] + items[:1]
    if name == "rotate-1":
        return items[-1:] + items[:-1]
    if name == "evens-first":
        return items[::2] + items[1::2]
    return items


class SetSeam:
    """Own the iteration order of every set the library builds at scan time: `set`/`frozenset` resolve through each multidecoder.* module's
    namespace to a subclass that iterates str/bytes elements (the types whose hash depends on PYTHONHASHSEED) in the chosen order."""

    def __init__(self, order):
        self.order = order
        self.touched = []

    def __enter__(self):
        order = self.order

        def it(base, s):
            items = list(base.__iter__(s))
            if items and all(isinstance(x, (bytes, str)) for x in items):
                try:
                    return iter(_order(order, sorted(items)))
                except TypeError:
                    pass
            return iter(items)

        class PermSet(set):
            def __iter__(s):
                return it(set, s)

        class PermFrozen(frozenset):
            def __iter__(s):
                return it(frozenset, s)

        for name, mod in list(sys.modules.items()):
            if name.startswith("multidecoder") and mod is not None:
                for attr, cls in (("set", PermSet), ("frozenset", PermFrozen)):
                    if attr not in vars(mod):
                        setattr(mod, attr, cls)
                        self.touched.append((mod, attr))
        return self

    def __exit__(self, *exc):
        for mod, attr in self.touched:
            delattr(mod, attr)


def run_setorder(rec, wi):
    import multidecoder.xortool  # noqa: F401  (make sure every module that can build a set at scan time is loaded)
    data = WITNESS[wi]
    md = Multidecoder()
    base = trees.tup(md.scan(data))
    for order in SET_ORDERS:
        rec.count("evaluations")
        rec.mark("states", ("setorder", wi, order), True)
        with SetSeam(order):
            got = trees.tup(md.scan(data))
        rec.count("traces")
        rec.count("transitions")
        if len(base[5]) > 0:
            rec.mark("nontrivial", 0, True)
        if got != base:
            rec.violation("C09.orders.same-tree", "set-iteration-order|scan-time", {"kind": "setorder", "witness": wi, "order": order},
                          f"iterating the str/bytes sets built during the scan of witness #{wi} ({core.short(data, 60)}) in order '{order}' changes the tree: "
                          f"{core.short(got, 160)} vs {core.short(base, 160)}", wi)
    rec.sample({"set_orders": SET_ORDERS, "witness": wi})


# ---- (3c) inputs that share a long prefix ------------------------------------------------------------------------------------


def prefix_pairs():
    """Pairs of inputs that agree on their first 4 KiB / 64 KiB and differ afterwards (anything remembered under a key made from the head of
    the input - a header page, a hash of the first block - confuses exactly such inputs)."""
    import struct

    from mdmc import pegen

    a = bytearray(pegen.valid_pe_big(0x1000, 1))
    sec = 0x1000 + 4 + 20 + 0xE0
    b = bytearray(a)
    struct.pack_into("<I", b, sec + 16, 0x400)  # SizeOfRawData of the only section: 0x200 -> 0x400
    struct.pack_into("<I", b, sec + 8, 0x400)
    b += b"\xcc" * 0x200
    assert a[:0x1000] == b[:0x1000] and a != b
    fill4k = (b"lorem ipsum dolor sit amet, " * 200)[:4100]
    fill64k = (b"consectetur adipiscing elit; " * 2400)[:65600]
    b64head = (b"QUJDREVGR0hJSktMTU5PUFFSU1RVVldYWVo" * 200)[:8192]
    return [
        ("pe-same-header-page", b"dropper: " + bytes(a) + b" end", b"dropper: " + bytes(b) + b" end"),
        ("text-4k", fill4k + b" http://first.example.com/a.exe", fill4k + b" http://second.example.org/b.dll 8.8.4.4"),
        ("text-64k", fill64k + b" bob@example.org strlen", fill64k + b" alice@example.com StrLen cmd /c echo hi"),
        ("base64-8k", b"x " + b64head + b"QUJD y", b"x " + b64head + b"WFla y"),
        ("hex-4k", b"x " + b"68747470" * 512 + b"3a2f2f61 y", b"x " + b"68747470" * 512 + b"3a2f2f62 y"),
        ("utf16-4k", b"\x01" + "".join(chr(97 + i % 26) for i in range(2100)).encode("utf-16le") + "X.exe".encode("utf-16le") + b"\x01\x02",
         b"\x01" + "".join(chr(97 + i % 26) for i in range(2100)).encode("utf-16le") + "Y.dll".encode("utf-16le") + b"\x01\x02"),
    ]


PREFIX_CHILD = r"""
import sys, pickle, base64, hashlib
from multidecoder.multidecoder import Multidecoder
from mdmc import trees
inputs = pickle.loads(sys.stdin.buffer.read())
shared = Multidecoder()
out = []
for j, d in enumerate(inputs):
    md = shared if sys.argv[1] == "shared" else Multidecoder()
    out.append(hashlib.sha1(repr(trees.tup(md.scan(d))).encode()).hexdigest())
print(" ".join(out))
"""


def _prefix_child(inputs, how):
    import base64
    import pickle

    r = subprocess.run([sys.executable, "-W", "ignore::DeprecationWarning", "-c", PREFIX_CHILD, how], input=pickle.dumps(inputs), capture_output=True, timeout=600)
    if r.returncode != 0:
        raise core.HarnessError("prefix child failed: " + r.stderr.decode("latin-1")[-400:])
    return r.stdout.decode().split()


def run_prefix(rec, i):
    name, x, y = prefix_pairs()[i]
    alone = {"x": _prefix_child([x], "fresh")[0], "y": _prefix_child([y], "fresh")[0]}
    if alone["x"] == alone["y"]:
        raise core.HarnessError(f"prefix pair {name}: both inputs give the same tree")
    data = {"x": x, "y": y}
    for how in ("shared", "fresh"):
        for hist in (("x", "y"), ("y", "x"), ("x", "x", "y"), ("x", "y", "x"), ("y", "y", "x")):
            rec.count("evaluations")
            rec.mark("states", ("prefix", name, how, hist), True)
            got = _prefix_child([data[h] for h in hist], how)
            rec.count("traces")
            rec.count("transitions", len(hist))
            rec.mark("nontrivial", 0, True)
            for k, h in enumerate(hist):
                if got[k] != alone[h]:
                    rec.violation("C09.history.same-tree", f"prefix-sharing-input|{name}", {"kind": "prefix", "pair": i, "history": list(hist), "scanner": how},
                                  f"inputs '{name}' agree on their head and differ afterwards: after the history {hist[:k]} ({how} scanner per scan) the tree of "
                                  f"'{h}' differs from its tree in a fresh process", i * 10 + k)
                    break
    rec.sample({"prefix_pair": name, "lengths": [len(x), len(y)], "histories": 10})


INCLUDE_SETS = [["base64", "path"], ["base64", "path", "network"], ["hex", "network", "path", "filename"], ["concat", "shell", "base64"]]
TIE_WITNESS = [b"/Applications/Utilities/Terminal0app", b"see /Applications/Utilities/Terminal0app and C:\\Users\\Public\\QUJDREVGR0hJSktMTU5P.exe",
               b"x aHR0cDovL2V4YW1wbGUuY29tL2EuZXhlIDguOC40LjQ= http://example.com/QUJDREVGR0hJSktMTU5PUFFSU1RVVldY"]


def run_orders_include(rec):
    """build_registry(include=[...]) turns the list into a set: ALL iteration orders of that set (and of anything derived from it by set
    algebra) must give the same registry behaviour - witnesses on which decoders of two included modules report the very same span."""
    n = 0
    for inc in INCLUDE_SETS:
        base_reg = mdreg.build_registry(families.FIXTURE_KW, include=list(inc))
        base = [trees.tup(Multidecoder(base_reg).scan(w_)) for w_ in TIE_WITNESS + WITNESS[:2]]
        nperm = 1
        for i in range(2, len(inc) + 1):
            nperm *= i
        for pi in range(nperm if len(inc) <= 4 else 2):
            rec.count("evaluations")
            rec.mark("states", ("orders-include", tuple(inc), pi), True)
            with Seams(perm_fn(pi), lambda items: list(items)):
                reg = mdreg.build_registry(families.FIXTURE_KW, include=list(inc))
            rec.count("traces")
            rec.count("transitions", len(reg))
            rec.mark("nontrivial", 0, True)
            got = [trees.tup(Multidecoder(reg).scan(w_)) for w_ in TIE_WITNESS + WITNESS[:2]]
            n += 1
            if got != base:
                j = [k for k in range(len(base)) if got[k] != base[k]][0]
                rec.violation("C09.orders.same-tree", "order-dependent|include-set", {"kind": "orders-include", "include": list(inc), "perm": pi},
                              f"build_registry(include={inc}) with the include set iterated in permutation #{pi}: tree of {(TIE_WITNESS + WITNESS[:2])[j][:50]!r} is "
                              f"{core.short(got[j][5], 160)} instead of {core.short(base[j][5], 160)}", len(inc))
    rec.sample({"include_sets": INCLUDE_SETS, "orders_checked": n})


def run_buffer_reuse(rec, which):
    """The caller scans block after block out of ONE bytearray that it refills in place (the readinto() pattern), with one scanner: every
    tree must be the tree of the bytes that are in the buffer at that moment.  Reference trees are computed first, from bytes objects."""
    blocks = [b"call VirtualAlloc then strlen and StrLen", b"only McAfee and Norton here, STRLEN too", b"nothing at all in this block ........",
              b"x " + _B64_2 + b" y", b"cmd /c echo http://a.com/b.exe 8.8.4.4", b"$k -bxor 35 FromBase64String('R1ZASA==')", b""]
    reg = (lambda: None) if which == "shipped" else (lambda: mdreg.build_registry(families.FIXTURE_KW))
    expected = {(bi, depth): trees.tup(Multidecoder(reg()).scan(blocks[bi], depth)) for bi in range(len(blocks)) for depth in (10, 1)}
    n = 0
    for depth in (10, 1):
        md = Multidecoder(reg())
        for hist in itertools.product(range(len(blocks)), repeat=3):
            buf = bytearray()
            for pos, bi in enumerate(hist):
                buf[:] = blocks[bi]
                rec.count("evaluations")
                rec.mark("states", ("buffer-reuse", which, depth, hist, pos), True)
                w = {"kind": "buffer-reuse", "registry": which, "history": list(hist), "depth": depth}
                ok, tree = rec.guard("C09.total", w, len(buf), md.scan, buf, depth)
                n += 1
                if not ok:
                    break
                rec.count("traces")
                rec.count("transitions")
                if pos:
                    rec.mark("nontrivial", 0, True)
                if trees.tup(tree) != expected[(bi, depth)]:
                    rec.violation("C09.history.same-tree", "reused-buffer|tree-of-earlier-contents", w,
                                  f"{which} registry, depth {depth}: block #{bi} scanned out of a bytearray that held blocks {list(hist[:pos])} before gives "
                                  f"{core.short(trees.tup(tree)[5], 160)}; the same bytes give {core.short(expected[(bi, depth)][5], 160)}", pos)
                    break
    rec.sample({"family": "reused-bytearray", "registry": which, "blocks": len(blocks), "scans": n})


def run_returned_lists(rec, part, nparts):
    """Every entry of the default registry x witness inputs: the returned list is the caller's (appending to it must not change later results)."""
    reg = Multidecoder().decoders
    inputs = [b"", b"plain text without anything", b"\x00\x01"] + WITNESS[:4]
    for ei in range(part, len(reg), nparts):
        entry = reg[ei]
        for di, data in enumerate(inputs):
            rec.count("evaluations")
            rec.mark("states", ("retlist", ei, di), True)
            w = {"kind": "returned-list", "entry": ei, "input": di}
            ok, hits = rec.guard("C09.total", w, ei, entry, data)
            if not ok:
                continue
            rec.count("traces")
            rec.count("transitions")
            if hits:
                rec.mark("nontrivial", 0, True)
            ok2, mine = rec.guard("C09.total", w, ei, trees.result_is_callers, entry, data, hits)
            if ok2 and not mine:
                name = getattr(entry, "__name__", None) or str(getattr(entry, "args", ["?"])[0])
                rec.violation("C09.history.same-tree", "decoder-hands-out-shared-list", w,
                              f"registry entry #{ei} ({name}) on witness input #{di}: after the caller appended to the returned list the same call gives a different result", ei)
    rec.sample({"registry_entries": len(reg), "inputs": len(inputs)})


# ---- (4) processes --------------------------------------------------------------------------------------------------

CHILD = r"""
import sys, json
sys.path.insert(0, sys.argv[3])
from multidecoder.multidecoder import Multidecoder
from multidecoder.registry import build_registry
from multidecoder.json_conversion import tree_to_json
kw = sys.argv[1]
ws = json.loads(sys.argv[2])
md1 = Multidecoder(build_registry(kw))
md2 = Multidecoder()
out = []
for w in ws:
    d = w.encode('latin-1')
    out.append(tree_to_json(md1.scan(d)))
    out.append(tree_to_json(md2.scan(d)))
    out.append(tree_to_json(md2.scan(d)))
print(json.dumps(out))
"""


def run_seeds(rec, tier):
    ws = [w.decode("latin-1") for w in WITNESS]
    md1 = Multidecoder(mdreg.build_registry(families.FIXTURE_KW))
    md2 = Multidecoder()
    exp = []
    for w_ in WITNESS:
        exp += [tree_to_json(md1.scan(w_)), tree_to_json(md2.scan(w_)), tree_to_json(md2.scan(w_))]
    cli_ref = None
    for seed in SEEDS[tier]:
        env = dict(os.environ, PYTHONHASHSEED=str(seed))
        rec.count("evaluations")
        rec.mark("states", ("seed", seed), True)
        opt = ["", "-O", "-OO"][seed % 3]  # the interpreter's optimisation level is part of the process configuration
        r = subprocess.run([sys.executable] + ([opt] if opt else []) + ["-c", CHILD, families.FIXTURE_KW, json.dumps(ws), core.REPO_SRC], capture_output=True, text=True, env=env, timeout=300)
        w = {"kind": "seed", "seed": seed}
        if r.returncode != 0:
            rec.violation("C09.process.total", "child-failed", w, f"child under PYTHONHASHSEED={seed} failed: {core.short(r.stderr, 200)}", seed)
            continue
        rec.count("traces")
        rec.count("transitions", len(exp))
        rec.mark("nontrivial", 0, True)
        got = json.loads(r.stdout)
        if got != exp:
            i = [j for j in range(len(exp)) if got[j] != exp[j]][0]
            rec.violation("C09.process.same-tree", f"seed-dependent|{'fixture' if i % 3 == 0 else 'shipped'}", w,
                          f"PYTHONHASHSEED={seed}: scan of {WITNESS[i // 3]!r} differs from the parent process (PYTHONHASHSEED={os.environ.get('PYTHONHASHSEED')})", seed)
        c = subprocess.run([sys.executable, "-m", "multidecoder", "--json"], input=WITNESS[0], capture_output=True, env=env, timeout=300)
        if cli_ref is None:
            cli_ref = c.stdout
        elif c.stdout != cli_ref or c.returncode != 0:
            rec.violation("C09.process.cli", "cli-seed-dependent", w, f"python -m multidecoder --json output under PYTHONHASHSEED={seed} differs from seed {list(SEEDS[tier])[0]}", seed)
    rec.sample({"seeds": list(SEEDS[tier]), "witness_inputs": WITNESS})


def run_twice(rec, unit):
    """Every input of the scan-level families is scanned twice in a row on one long-lived scanner: the trees must be equal."""
    from mdmc.engines import streams

    name, tier, first, lite = unit
    fam = families.get(name)
    md = Multidecoder(streams.registry())
    md1 = Multidecoder(streams.registry())  # only ever used at depth limit 1
    last = b""
    for level, s, unique in fam.states(tier, first, fam.L[tier] - lite):
        rec.mark("states", s, unique)
        for pre, suf in fam.wraps:
            data = pre + s + suf
            rec.count("evaluations")
            w = {"kind": "twice", "data": data}
            ok, first = rec.guard("C09.repeat.total", w, len(data), md.scan, data)
            if not ok:
                rec.note("scan raised (reported by C01)")
                continue
            t1 = trees.tup(first)
            ok, ts = rec.guard("C09.repeat.total", w, len(data), lambda: (trees.tup(md.scan(data, 1)), trees.tup(md.scan(data)), trees.tup(md1.scan(data, 1))))
            if not ok:
                continue
            rec.count("traces")
            rec.count("transitions", 4)
            if t1[5]:
                rec.mark("nontrivial", data)
            t_shallow, t2, t_shallow_ref = ts
            if trees.tup(first) != t1:
                rec.violation("C09.repeat.same-tree", "earlier-result-changed-by-later-scan", w,
                              f"the tree returned by the first scan of {data!r} changed while the same input was scanned again: {core.short(t1, 140)} -> {core.short(trees.tup(first), 140)}", len(data))
            if t1 != t2:
                rec.violation("C09.repeat.same-tree", "second-scan-differs", w, f"scanning {data!r} at depth 10, then 1, then 10 on one scanner: {core.short(t1, 160)} then {core.short(t2, 160)}", len(data))
            if t_shallow != t_shallow_ref:
                rec.violation("C09.repeat.same-tree", "depth-1-scan-depends-on-history", w,
                              f"scan({data!r}, 1) after a depth-10 scan on the same scanner: {core.short(t_shallow, 160)}; on a scanner only used at depth 1: {core.short(t_shallow_ref, 160)}", len(data))
            last = data
    rec.sample({"family": name, "scanned_twice": True, "last": last})


def run_unit(unit, rec):
    kind = unit[0]
    if kind == "twice":
        run_twice(rec, unit[1])
        return
    if kind == "threads":
        run_threads(rec, unit[1], unit[2], unit[3], unit[4])
    elif kind == "history":
        run_history(rec, unit[1], unit[2], unit[3])
    elif kind == "orders-fixture":
        run_orders_fixture(rec, unit[1], unit[2])
    elif kind == "orders-shipped":
        run_orders_shipped(rec, unit[1], unit[2])
    elif kind == "seeds":
        run_seeds(rec, unit[1])
    elif kind == "setorder":
        run_setorder(rec, unit[1])
    elif kind == "prefix":
        run_prefix(rec, unit[1])
    elif kind == "returned-lists":
        run_returned_lists(rec, unit[1], unit[2])
    elif kind == "buffer-reuse":
        run_buffer_reuse(rec, unit[1])
    elif kind == "orders-include":
        run_orders_include(rec)


def replay(w, rec):
    k = w.get("kind")
    if k == "schedule":
        run_threads(rec, "quick", w["harness"], 0, 0, only_prefix=w["choices"])
    elif k == "history":
        first = [i for i, e in enumerate(HIST_EVENTS) if list(e) == list(w["history"][0])]
        run_history(rec, "quick", first[0] if first else 0, len(HIST_EVENTS))
    elif k == "order":
        run_orders_fixture(rec, 0, 1)
    elif k == "shipped-order":
        run_orders_shipped(rec, 0, 1)
    elif k == "seed":
        run_seeds(rec, "quick")
    elif k == "setorder":
        run_setorder(rec, w["witness"])
    elif k == "prefix":
        run_prefix(rec, w["pair"])
    elif k == "orders-include":
        run_orders_include(rec)
    elif k == "buffer-reuse":
        run_buffer_reuse(rec, w["registry"])
    elif k == "returned-list":
        run_returned_lists(rec, w["entry"] % 8, 8)
    elif k == "twice":
        from mdmc.engines import streams
        md = Multidecoder(streams.registry())
        data = w["data"]
        t1 = trees.tup(md.scan(data))
        t2 = trees.tup(md.scan(data))
        if t1 != t2:
            rec.violation("C09.repeat.same-tree", "second-scan-differs", w, f"scanning {data!r} twice on one scanner: {core.short(t1, 160)} then {core.short(t2, 160)}", len(data))
