"""C07  The depth limit bounds recursion and only ever truncates the tree."""
from __future__ import annotations

import base64
import binascii

from mdmc import core, trees
from mdmc.engines import hitx, streams
from mdmc.props import _engineprop as ep
from mdmc.refs.engine_model import R, Trace, ref_scan

ID = "C07"
TITLE = "The depth limit bounds recursion and only ever truncates the tree"
TOTAL = "C07.scan-terminates"

BOUNDS = {
    "quick": dict(
        full=[dict(N=4, K=2, ks=tuple(range(-1, 5)), modes=("r0", "rp", "rd"), grouped=(False,), hi=True, kinds=hitx.KINDS_HI),
              dict(N=4, K=2, ks=tuple(range(-3, 6)), modes=hitx.MODES, grouped=(False,)),
              dict(N=3, K=3, ks=tuple(range(-1, 5)), modes=("r0", "rd"), grouped=(False,)),
              dict(N=3, K=1, ks=tuple(range(-1, 14)), modes=("rd", "rk"), grouped=(False,))],
        streams="quick", streams_lite=1, stream_ks=(-1, 0, 1, 2, 3, 4), layers=12),
    "thorough": dict(
        full=[dict(N=5, K=2, ks=tuple(range(-1, 5)), modes=("r0", "rp", "rd"), grouped=(False,), hi=True, kinds=hitx.KINDS_HI),
              dict(N=5, K=2, ks=tuple(range(-3, 6)), modes=hitx.MODES, grouped=(False, True)),
              dict(N=4, K=3, ks=tuple(range(-1, 5)), modes=hitx.MODES, grouped=(False,)),
              dict(N=4, K=2, ks=tuple(range(-1, 14)), modes=("rd", "rk"), grouped=(False,))],
        streams="thorough", streams_lite=1, stream_ks=(-1, 0, 1, 2, 3, 4, 5), layers=12),
}


def describe(tier):
    return {
        "rule": ep.RULE_PREFIX + "Each configuration/input is scanned at EVERY depth limit k of its block's range. Oracle (i): no decoder is invoked "
        "for k<=0 and the result is the bare root; every decoder invocation happens at recursion level < k (level = number of enclosing "
        "scan_node activations - 1, read by the registry wrapper) and the multiset of (level, searched value) passes equals that of the reference procedure run with budget k (so descending into decoder-supplied sub-structure costs one level per nesting level); the scan terminates although modes rd/rk/dT make every decoded value "
        "decodable again. Oracle (ii) for every pair (k, k+1): tree(k) == tree(k+1) with every node produced by the deepest search pass "
        "(level k) removed -- which implies the order-preserving sub-list relation of every child list. 'layers' = base64^n, hex^n, "
        "(concat o base64)^n for n=1..12 on the shipped registry x k=-1..13. After-failure axis: a scan with limit 1..6 is aborted by RuntimeError / KeyboardInterrupt escaping from a user decoder at every recursion level; afterwards the same and a fresh scanner must return the k-limited trees computed beforehand for k=-1..12. Decoded-volume axis: one scan producing ~9 x s bytes of decoded data (s up to 3 MiB, thorough 32 MiB) before a later sibling that decodes again, at k=-1..12. Repeated-value axis: documents in which the SAME decoded value is reached at two (or three) different nesting depths - every ordered pair of synthetic chains '#a<pad> #b<pad>' (a != b in 1..7, optional third chain) and every ordered pair b64^i(P), b64^j(P) (i != j in 0..3, P holding two further base64 layers) on the shipped registry, with the value's size over a ladder - at every k. Caller-stack axis: every 1-hit configuration (N=3, modes rd/rk/rp) and base64^12 at k=-1..13 is "
        f"scanned from a recursive caller with (frames already on the stack, recursion limit) in {CALLER_DEPTHS}: same passes as the model, same tree as from a shallow caller "
        "(a scan for which the caller left too little stack, RecursionError, is skipped). Non-trivial = a pair (k,k+1) whose trees differ.",
        "bounds": BOUNDS[tier],
        "assumptions": ["decoders are pure (C09) so the shallow passes of two scans are identical"],
        "exhaustive": True,
    }


def plan(tier, seed):
    b = BOUNDS[tier]
    units = []
    for bi, blk in enumerate(b["full"]):
        for ci in range(len(hitx.candidates(blk["N"], blk.get("kinds", hitx.KINDS)))):
            units.append((tier, "full", bi, ci))
    for u in streams.plan(b["streams"], lite=b["streams_lite"]):
        units.append((tier, "stream", u))
    for kind in ("b64", "hex", "concat-b64"):
        units.append((tier, "layers", kind))
    for d in CALLER_DEPTHS:
        units.append((tier, "callstack", d))
    for s in VOLUMES[tier]:
        units.append((tier, "volume", s))
    units.append((tier, "after-failure"))
    for pad in REPEAT_PADS[tier]:
        for a in range(1, 8):
            units.append((tier, "repeats", pad, a))
        units.append((tier, "repeats-shipped", pad))
    return units


# the SAME decoded value reached at two different nesting depths of one document (sizes over a ladder: anything that remembers what a value
# expanded to must also remember how much budget was left)
REPEAT_PADS = {"quick": (0, 200, 1100, 5000), "thorough": (0, 200, 1023, 1024, 1100, 4096, 5000, 70000)}


# total amount of decoded data produced by ONE scan (a budget on it would make a deeper limit starve later siblings): one blob of s bytes under
# 9 layers, followed by a small blob under 3 layers; total decoded volume ~ 9 * s
VOLUMES = {"quick": (4096, 65536, 1 << 20, (2 << 20) + 1, 3 << 20), "thorough": (4096, 65536, 1 << 20, (2 << 20) + 1, 3 << 20, 8 << 20, 32 << 20)}


def run_after_failure(rec):
    """A scan is aborted by an exception escaping from a user decoder at recursion level d of a scan with limit L (the caller catches it and
    carries on); afterwards every scan - same scanner, fresh scanner - must apply the decoders to exactly the levels its own limit allows."""
    from multidecoder.multidecoder import Multidecoder

    data = b"#9aaaa #3bb"
    ks = tuple(range(-1, 13))
    expected = {k: trees.tup(Multidecoder([_peel]).scan(data, k)) for k in ks}
    n = 0
    for exc in (RuntimeError, KeyboardInterrupt):
        for L in range(1, 7):
            for d in range(0, L):
                state = {"armed": True}

                def bomb(value, d=d, state=state, exc=exc):
                    if state["armed"] and value[:2] == b"#" + bytes([0x39 - d]):
                        raise exc("user decoder failed")
                    return []

                md = Multidecoder([_peel, bomb])
                try:
                    md.scan(data, L)
                    raised = False
                except exc:
                    raised = True
                state["armed"] = False
                if not raised:
                    # the decoders were not applied at level d < L at all (only possible if an earlier aborted scan left something behind)
                    rec.violation("C07.passes-equal-model", "depth-rule-broken-after-an-aborted-scan", {"engine": "after-failure", "exc": exc.__name__, "L": L, "d": d, "depth": L},
                                  f"scan(data, {L}) never applied the decoders at recursion level {d} (< {L}) after earlier scans had been aborted by an exception", L * 10 + d)
                    continue
                for who, scanner in (("same scanner", md), ("fresh scanner", Multidecoder([_peel]))):
                    for k in ks:
                        rec.count("evaluations")
                        rec.mark("states", ("after-failure", exc.__name__, L, d, who, k), True)
                        w = {"engine": "after-failure", "exc": exc.__name__, "L": L, "d": d, "depth": k}
                        ok, t = rec.guard(TOTAL, w, L * 10 + d, scanner.scan, data, k)
                        if not ok:
                            continue
                        rec.count("traces")
                        rec.count("transitions")
                        n += 1
                        if k > 0:
                            rec.mark("nontrivial", 0, True)
                        if trees.tup(t) != expected[k]:
                            rec.violation("C07.passes-equal-model", "depth-rule-broken-after-an-aborted-scan", w,
                                          f"after a scan with limit {L} was aborted by {exc.__name__} at recursion level {d}, scan(data, {k}) on the {who} returns "
                                          f"{core.short(trees.tup(t), 140)} instead of {core.short(expected[k], 140)}", L * 10 + d)
    rec.sample({"engine": "after-failure", "aborted_scans": "limits 1..6 x every level x RuntimeError / KeyboardInterrupt", "scans_checked": n})


def _peel(value):
    """Synthetic layered decoder: every blank-separated token '#<n><rest>' with n in 1..9 decodes to '#<n-1><rest>'."""
    from multidecoder.node import Node

    out, pos = [], 0
    for tok in value.split(b" "):
        if len(tok) >= 2 and tok[:1] == b"#" and 0x31 <= tok[1] <= 0x39:
            out.append(Node("layer", b"#" + bytes([tok[1] - 1]) + tok[2:], "peel", pos, pos + len(tok)))
        pos += len(tok) + 1
    return out


# The caller's own stack depth is an environment answer: a scan started from a deeply recursive caller (or under a different
# recursion limit) must apply the decoders to exactly the same levels.  (frames already on the stack, recursion limit)
CALLER_DEPTHS = [(100, 1000), (500, 1000), (800, 1000), (900, 1000), (920, 1000), (930, 1000), (940, 1000), (2940, 3000), (140, 200)]


def _stack_depth():
    import sys
    n, f = 0, sys._getframe(0)
    while f is not None:
        n, f = n + 1, f.f_back
    return n


def at_depth(frames, limit, fn):
    """Call fn() with `frames` frames already on the stack and the interpreter's recursion limit set to `limit`."""
    import sys
    old = sys.getrecursionlimit()
    sys.setrecursionlimit(max(limit, _stack_depth() + 50))

    base = _stack_depth() + 1

    def descend(have):
        if have >= frames:
            sys.setrecursionlimit(max(limit, have + 45))
            return fn()
        return descend(have + 1)

    try:
        return descend(base)
    except RecursionError:
        return None  # the caller left too little stack for any scan: not the library's doing
    finally:
        sys.setrecursionlimit(old)


def strip(tree, log, k):
    """tree tuple of `tree` without the nodes produced by searches at level >= k."""
    level = {sid: frames - 1 for sid, frames, _ in log.searches}

    def rec(n):
        kids = []
        for c in n.children:
            h = log.hits.get(id(c))
            if h is not None and level[h[0]] >= k:
                continue
            kids.append(rec(c))
        return (n.type, n.value, n.obfuscation, n.start, n.end, tuple(kids))

    return rec(tree)


def _tolerant(scan):
    """Shipped-decoder scans: an exception is C01's finding, not C07's (a hang still is: C07 claims termination)."""
    def f(k):
        try:
            return scan(k)
        except core.Hang:
            raise
        except Exception:  # noqa: BLE001
            return None
    return f


def check_ladder(rec, scan, data, ks, w, size, key, tolerant=False):
    """scan(k) -> (tree, log).  Checks oracle (i) for every k and oracle (ii) for every adjacent pair in ks."""
    results = {}
    for k in ks:
        wk = dict(w, depth=k)
        rec.count("evaluations")
        ok, res = rec.guard(TOTAL, wk, size + abs(k), _tolerant(scan) if tolerant else scan, k, limit=8)
        if not ok:
            continue
        if res is None:
            rec.note("scan-raised (reported by C01)")
            continue
        rec.count("traces")
        tree, log = res
        results[k] = (tree, log)
        rec.count("transitions", len(log.hits))
        t = trees.tup(tree)
        rec.mark("outcomes", t)
        if k <= 0:
            if log.searches:
                rec.violation("C07.no-search-at-k<=0", "searched-with-k<=0", wk, f"{len(log.searches)} decoder passes ran with depth limit {k}", size)
            if t != ("", data, "", 0, len(data), ()):
                rec.violation("C07.bare-root-at-k<=0", "not-bare-root", wk, f"depth limit {k} did not return the bare root: {core.short(t, 120)}", size)
        deepest = max((fr - 1 for _, fr, _ in log.searches), default=-1)
        rec.mark("states", ("lvl", deepest, min(k, 20)))
        if deepest >= max(k, 0) and log.searches:
            rec.violation("C07.level<k", f"search-at-level>=k|over={min(deepest - k, 3)}", wk,
                          f"with depth limit {k} a decoder pass ran at recursion level {deepest}", size)
    for k in ks:
        if k in results and k + 1 in results:
            tk, _ = results[k]
            tk1, lk1 = results[k + 1]
            a, b = trees.tup(tk), strip(tk1, lk1, max(k, 0))
            if a != b:
                rec.violation("C07.truncation-only", "tree(k)!=tree(k+1)-minus-deepest-pass", dict(w, depth=k),
                              f"tree for k={k} is not the tree for k={k + 1} with the level-{max(k, 0)} pass removed: {core.short(a, 150)} vs {core.short(b, 150)}", size)
            if a != trees.tup(tk1):
                rec.mark("nontrivial", (key, k))


def synth(rec, T, hits, mode, grouped, ks, caller=None):
    from multidecoder.multidecoder import Multidecoder

    _, ireg = hitx.registries(T, hits, mode, grouped)
    w = {"engine": "hitx-ladder", "T": T, "hits": [list(h) for h in hits], "mode": mode, "grouped": grouped, "ks": list(ks)}
    if caller:
        w["caller"] = list(caller)

    mreg, _ = hitx.registries(T, hits, mode, grouped)
    size = len(hits) * 100 + hitx.ALL_MODES.index(mode)

    def scan(k):
        if caller:
            res = at_depth(caller[0], caller[1], lambda: trees.iscan(ireg, T, k))
            if res is None:
                return None
            tree, log = res
        else:
            tree, log = trees.iscan(ireg, T, k)
        # the decoder passes (recursion level, searched value) must be exactly those of the reference procedure with budget k
        tr = Trace()
        ref_scan(R("", T, "", 0, len(T)), k, mreg, tr)
        got = sorted((fr - 1, v) for _, fr, v in log.searches)
        if got != sorted(tr.searches):
            extra = [x for x in got if x not in tr.searches]
            missing = [x for x in tr.searches if x not in got]
            rec.violation("C07.passes-equal-model", f"search-passes-differ|{'extra' if extra and not missing else ('missing' if missing and not extra else 'level')}",
                          dict(w, depth=k), f"with depth limit {k} the decoders were applied to (level, value) {core.short(extra, 120)} beyond, and not to {core.short(missing, 120)} of, "
                          f"what the depth rule allows", size)
        return tree, log

    check_ladder(rec, scan, T, ks, w, size, (T, hits, mode, grouped))


def layers(kind, n):
    text = b"get http://example.com/a.exe now 8.8.4.4 ok!"
    for _ in range(n):
        if kind == "b64":
            text = base64.b64encode(text)
        elif kind == "hex":
            text = binascii.hexlify(text)
        else:
            e = base64.b64encode(text)
            h = len(e) // 2
            text = b'"' + e[:h] + b'" + "' + e[h:] + b'"'
    return text


def run_unit(unit, rec):
    tier, kind = unit[0], unit[1]
    b = BOUNDS[tier]
    if kind == "full":
        blk = b["full"][unit[2]]
        kinds = blk.get("kinds", hitx.KINDS)
        T = hitx.text_for(blk["N"], blk.get("hi", False))
        first = hitx.candidates(blk["N"], kinds)[unit[3]]
        hits = ()
        for hits in hitx.configs_from(first, blk["N"], blk["K"], kinds=kinds):
            for mode in blk["modes"]:
                for grouped in blk["grouped"]:
                    if grouped and len(hits) < 2:
                        continue
                    synth(rec, T, hits, mode, grouped, blk["ks"])
        rec.sample({"unit": list(unit), "text": T, "last_configuration": [list(h) for h in hits], "ks": list(blk["ks"])})
    elif kind == "stream":
        name, t, first, lite = unit[2]
        from mdmc import families

        fam = families.get(name)
        reg = streams.registry()
        L = fam.L[t] - lite
        last = None
        for level, s, unique in fam.states(t, first, L):
            rec.mark("states", s, unique)
            for pre, suf in fam.wraps:
                data = pre + s + suf
                w = {"engine": "stream-ladder", "family": name, "data": data, "ks": list(b["stream_ks"])}
                check_ladder(rec, lambda k: trees.iscan(reg, data, k), data, b["stream_ks"], w, len(data), data, tolerant=True)
                last = data
        if last is not None:
            rec.sample({"family": name, "data": last, "ks": list(b["stream_ks"])})
    elif kind == "callstack":
        caller = unit[2]
        T = hitx.text(3)
        n = 0
        for first in hitx.candidates(3):
            for hits in hitx.configs_from(first, 3, 1):
                for mode in ("rd", "rk", "rp"):
                    synth(rec, T, hits, mode, False, tuple(range(-1, 14)), caller=caller)
                    n += 1
        reg = streams.registry()
        data = layers("b64", 12)
        shallow = {k: trees.tup(trees.iscan(reg, data, k)[0]) for k in range(-1, 14)}
        w = {"engine": "layers-callstack", "kind": "b64", "n": 12, "caller": list(caller), "ks": list(range(-1, 14))}

        def deep_scan(k):
            return at_depth(caller[0], caller[1], lambda: trees.iscan(reg, data, k))

        check_ladder(rec, deep_scan, data, tuple(range(-1, 14)), w, 12000, ("b64-callstack", caller), tolerant=True)
        for k in range(-1, 14):
            res = deep_scan(k)
            if res is not None and trees.tup(res[0]) != shallow[k]:
                rec.violation("C07.level<k", "tree-depends-on-caller-stack", dict(w, depth=k),
                              f"12 base64 layers, depth limit {k}: the tree of a scan started with {caller[0]} frames on the stack (recursion limit {caller[1]}) differs from the "
                              f"tree of the same scan started from a shallow caller", 12000 + k)
        rec.sample({"callstack": list(caller), "synthetic_configurations": n, "ks": "-1..13"})
    elif kind == "after-failure":
        run_after_failure(rec)
    elif kind == "volume":
        s = unit[2]
        data = b"#9" + b"a" * s + b" #3bbbbbbbb"
        ks = tuple(range(-1, 13))
        w = {"engine": "volume", "size": s, "ks": list(ks)}
        check_ladder(rec, lambda k: trees.iscan([_peel], data, k), data, ks, w, s // 1024, ("volume", s))
        rec.sample({"volume": s, "total_decoded_bytes": 9 * s, "ks": "-1..12"})
    elif kind == "repeats":
        pad, a = unit[2], unit[3]
        ks = tuple(range(-1, 11))
        n = 0
        for b2 in range(1, 8):
            if a == b2:
                continue
            for c in (None, 1, 4):
                # chain a and chain b2 reach the common values '#j<pad>' (j < min(a, b2)) at depths that differ by |a - b2|; an optional third
                # chain c; the padding itself holds two further tokens when it is long enough
                rest = b"x" * pad
                toks = [b"#" + bytes([0x30 + a]) + rest, b"#" + bytes([0x30 + b2]) + rest] + ([b"#" + bytes([0x30 + c]) + rest] if c else [])
                data = b" ".join(toks)
                w = {"engine": "repeats", "pad": pad, "chains": [a, b2] + ([c] if c else []), "ks": list(ks)}
                check_ladder(rec, lambda k: trees.iscan([_peel], data, k), data, ks, w, pad // 100 + a + b2, ("repeats", pad, a, b2, c))
                n += 1
        rec.sample({"repeats": "same value at two depths", "pad": pad, "first_chain": a, "documents": n})
    elif kind == "repeats-shipped":
        pad = unit[2]
        reg = streams.registry()
        inner = b"start " + base64.b64encode(base64.b64encode(b"get http://example.com/a.exe now 8.8.4.4 ok!")) + b" end " + b"-" * pad
        ks = tuple(range(-1, 9))
        n = 0
        for i in range(0, 4):
            for j in range(0, 4):
                if i == j:
                    continue
                x, y = inner, inner
                for _ in range(i):
                    x = base64.b64encode(x)
                for _ in range(j):
                    y = base64.b64encode(y)
                data = b"$a='" + x + b"'\n$b='" + y + b"'\n"
                w = {"engine": "repeats-shipped", "pad": pad, "i": i, "j": j, "ks": list(ks)}
                check_ladder(rec, lambda k: trees.iscan(reg, data, k), data, ks, w, pad // 100 + i + j, ("repeats-shipped", pad, i, j), tolerant=True)
                n += 1
        rec.sample({"repeats-shipped": "b64^i(P) and b64^j(P) in one document", "pad": pad, "documents": n})
    elif kind == "layers":
        reg = streams.registry()
        for n in range(1, b["layers"] + 1):
            if kind == "layers" and unit[2] != "b64" and n > 8:
                continue  # hex^n / concat-b64^n grow by 2x/1.4x per layer; 8 layers are already > 10 kB
            data = layers(unit[2], n)
            ks = tuple(range(-1, 14))
            w = {"engine": "layers", "kind": unit[2], "n": n, "ks": list(ks)}
            check_ladder(rec, lambda k: trees.iscan(reg, data, k), data, ks, w, n * 1000, (unit[2], n), tolerant=True)
        rec.sample({"layers": unit[2], "n": n, "data_prefix": data[:60]})


def replay(w, rec):
    eng = w.get("engine")
    k = w.get("depth", 0)
    ks = tuple(sorted(set(w.get("ks", [])) | {k - 1, k, k + 1}))
    if eng == "hitx-ladder":
        synth(rec, w["T"], tuple(tuple(h) for h in w["hits"]), w["mode"], w["grouped"], ks, caller=tuple(w["caller"]) if w.get("caller") else None)
    elif eng == "after-failure":
        run_after_failure(rec)
    elif eng == "volume":
        run_unit(("quick", "volume", w["size"]), rec)
    elif eng == "repeats":
        run_unit(("quick", "repeats", w["pad"], w["chains"][0]), rec)
    elif eng == "repeats-shipped":
        run_unit(("quick", "repeats-shipped", w["pad"]), rec)
    elif eng == "layers-callstack":
        run_unit(("quick", "callstack", tuple(w["caller"])), rec)
    elif eng == "stream-ladder":
        reg = streams.registry()
        data = w["data"]
        check_ladder(rec, lambda kk: trees.iscan(reg, data, kk), data, ks, {kk: v for kk, v in w.items() if kk != "depth"}, len(data), data, tolerant=True)
    elif eng == "layers":
        reg = streams.registry()
        data = layers(w["kind"], w["n"])
        check_ladder(rec, lambda kk: trees.iscan(reg, data, kk), data, ks, {kk: v for kk, v in w.items() if kk != "depth"}, w["n"] * 1000, (w["kind"], w["n"]), tolerant=True)
