"""E3 treex: exhaustive enumeration of small Node trees (shape x spans x types x values).

A tree is a spec (type, value, label, start, end, [children]); child spans are every in-bounds interval (empty ones
included) in non-decreasing start order, so overlapping and nested siblings occur.
"""
from __future__ import annotations

import itertools

from multidecoder.node import Node

TYPES = ("", "string", "vba.string", "strings", "x", "substring")


def mk(spec) -> Node:
    t, v, o, s, e, kids = spec
    return Node(t, v, o, s, e, children=[mk(k) for k in kids])


def intervals(n):
    return [(a, b) for a in range(n + 1) for b in range(a, n + 1)]


def child_values(cov):
    out = []
    for v in (cov, b"", b"Z", cov + b"Z"):
        if v not in out:
            out.append(v)
    return out


def child_options(value, iv, depth, types, gk, gtypes):
    """Every child spec on interval iv (with every grandchild list when depth allows)."""
    a, b = iv
    cov = value[a:b]
    for t in types:
        for v in child_values(cov):
            if depth > 0 and v:
                for g in child_lists(v, depth - 1, gk, gtypes, gk if depth > 1 else 0, gtypes):
                    yield (t, v, "", a, b, g)
            else:
                yield (t, v, "", a, b, [])


def interval_seqs(n, k, first=None):
    """Every sequence of k in-bounds intervals with non-decreasing start (optionally with a fixed first interval)."""
    ivs = intervals(n)
    heads = [first] if first is not None else ivs

    def rec(seq):
        if len(seq) == k:
            yield seq
            return
        for iv in ivs:
            if iv[0] >= seq[-1][0]:
                yield from rec(seq + (iv,))

    if k == 0:
        yield ()
        return
    for h in heads:
        yield from rec((h,))


def child_lists(value, depth, maxk, types, gk, gtypes, first=None):
    """Every list of <= maxk children of `value` (non-decreasing start order).  first: fix the first child's interval
    (work partition; the empty list is then not produced)."""
    if first is None:
        yield []
    for k in range(1, maxk + 1):
        for chosen in interval_seqs(len(value), k, first):
            opts = [list(child_options(value, iv, depth, types, gk, gtypes)) for iv in chosen]
            for prod in itertools.product(*opts):
                yield list(prod)


def root_values(alphabet, maxlen):
    for L in range(0, maxlen + 1):
        for c in itertools.product(alphabet, repeat=L):
            yield b"".join(c)
