"""E4 schedx: controlled 2-thread scheduler over sys.settrace line events + iterative context bounding.

Every `line` event in a frame whose code lives under /repo/src/multidecoder is a scheduling point.  Exactly one thread
runs at a time (baton = one semaphore per thread); at a point where more than one thread is enabled the scheduler takes
the next recorded choice (0 = keep running the current thread, k = switch to the k-th other enabled thread), default 0.
A schedule is the list of choices; switching away from a thread that is still enabled is a preemption.
"""
from __future__ import annotations

import os
import sys
import threading

import multidecoder

from mdmc import core

SRC = os.path.dirname(os.path.realpath(multidecoder.__file__))


class Divergence(core.HarnessError):
    pass


class Sched:
    def __init__(self, n, choices, opcode=False):
        self.n = n
        self.sems = [threading.Semaphore(0) for _ in range(n)]
        self.alive = [True] * n
        self.choices = list(choices)
        self.pos = 0
        self.trace = []  # (number of enabled threads, choice taken, (file, line) of the yielding thread)
        self.points = 0
        self.opcode = opcode
        self.error = None

    def point(self, me, where):
        self.points += 1
        enabled = [i for i in range(self.n) if self.alive[i] and i != me]
        if not enabled:
            return
        if self.pos < len(self.choices):
            c = self.choices[self.pos]
            if c > len(enabled):
                self.error = f"choice {c} out of range at point {self.pos} ({len(enabled)} other threads enabled)"
                c = 0
        else:
            c = 0
        self.pos += 1
        self.trace.append((len(enabled) + 1, c, where))
        if c:
            nxt = enabled[c - 1]
            self.sems[nxt].release()
            self.sems[me].acquire()

    def finish(self, me):
        self.alive[me] = False
        en = [i for i in range(self.n) if self.alive[i]]
        if en:
            self.sems[en[0]].release()


def run(bodies, choices, opcode_files=()):
    """Run bodies (callables) as threads under the schedule `choices`.  Returns (Sched, results list)."""
    n = len(bodies)
    s = Sched(n, choices)
    res = [None] * n

    def tracer_for(me):
        def local(frame, event, arg):
            if event == "line" or event == "opcode":
                s.point(me, (frame.f_code.co_filename[len(SRC) + 1 :], frame.f_lineno))
            return local

        def glob(frame, event, arg):
            fn = frame.f_code.co_filename
            if fn.startswith(SRC):
                if opcode_files and fn.endswith(opcode_files):
                    frame.f_trace_opcodes = True
                return local
            return None

        return glob

    def body(me):
        s.sems[me].acquire()
        sys.settrace(tracer_for(me))
        try:
            res[me] = ("ok", bodies[me]())
        except BaseException as e:  # noqa: BLE001 - reported by the caller as a violation
            res[me] = ("exc", e)
        finally:
            sys.settrace(None)
            s.finish(me)

    ts = [threading.Thread(target=body, args=(i,), daemon=True) for i in range(n)]
    for t in ts:
        t.start()
    s.sems[0].release()
    for t in ts:
        t.join(60)
        if t.is_alive():
            raise core.HarnessError("scheduled thread did not finish within 60 s (deadlock in the harness or the library)")
    if s.error:
        raise Divergence(s.error)
    return s, res


def explore(bodies_factory, check, budget, prefix=(), stats=None, opcode_files=(), first_only=None):
    """Iterative context bounding as in the brief: run the prefix, default choice afterwards, then branch at every later
    point where a switch is affordable.  bodies_factory() must return fresh bodies (fresh inputs, same shared object).
    first_only: (lo, hi) restricts the *first* branching index of the root call (work partition)."""
    s, res = run(bodies_factory(), list(prefix), opcode_files)
    # replay determinism: the recorded prefix must have been consumed exactly as recorded
    for i, c in enumerate(prefix):
        if i >= len(s.trace) or s.trace[i][1] != c:
            raise Divergence(f"schedule prefix diverged at point {i}")
    if stats is not None:
        stats["schedules"] += 1
        stats["steps"] += s.points
    check(s, res, list(prefix))
    if budget <= 0:
        return
    lo, hi = (len(prefix), len(s.trace)) if first_only is None else first_only
    for i in range(max(lo, len(prefix)), min(hi, len(s.trace))):
        n_enabled = s.trace[i][0]
        taken = [t[1] for t in s.trace[:i]]
        for alt in range(1, n_enabled):
            explore(bodies_factory, check, budget - 1, tuple(taken) + (alt,), stats, opcode_files)
