"""E1 seqx: bounded-exhaustive exploration of token sequences.

A family is (alphabet of byte-string tokens, maximal number of tokens L, optional prefix-closed grammar filter,
list of embeddings).  The explorer walks the prefix tree breadth-first, canonicalises a state to the bytes it spells
(two token sequences spelling the same bytes are one state: everything under test sees only the bytes), and hands
every distinct state to the caller.  Work is partitioned by first token; BFS inside a unit guarantees that the first
witness of any signature is a shortest one.
"""
from __future__ import annotations


class Family:
    def __init__(self, name, tokens, L, wraps=((b"", b""),), grammar=None, note=""):
        self.name = name
        self.tokens = [t if isinstance(t, bytes) else t.encode("latin-1") for t in tokens]
        assert len(set(self.tokens)) == len(self.tokens), f"duplicate token in {name}"
        self.L = dict(L)  # tier -> max tokens
        self.wraps = [(p, s) for p, s in wraps]
        self.grammar = grammar  # callable(bytes_so_far, token) -> bool (may the token be appended?)
        self.note = note

    def size(self, tier):
        n, L = len(self.tokens), self.L[tier]
        return sum(n**i for i in range(L + 1))

    def units(self, tier):
        return [(self.name, tier, -1)] + [(self.name, tier, i) for i in range(len(self.tokens))]

    def states(self, tier, first, L=None):
        """Yield (level, bytes, unique) for every distinct byte string spelled by a token sequence of length <= L whose
        first token is tokens[first]  (first == -1: the empty sequence only).

        `unique` is True when no *other* unit can spell the same bytes (no other token is a prefix of the string), so the
        parent may count the state without a cross-unit hash set; strings for which that is not certain are deduplicated
        across units by hash."""
        if first < 0:
            yield 0, b"", True
            return
        L = self.L[tier] if L is None else L
        if L < 1:
            return
        g = self.grammar
        t0 = self.tokens[first]
        if g and not g(b"", t0):
            return
        rivals = [t for i, t in enumerate(self.tokens) if i != first and (t.startswith(t0) or t0.startswith(t))]
        seen = {t0}
        frontier = [t0]
        yield 1, t0, not any(t0.startswith(t) for t in rivals)
        for level in range(2, L + 1):
            nxt = []
            for s in frontier:
                for t in self.tokens:
                    if g and not g(s, t):
                        continue
                    u = s + t
                    if u in seen:
                        continue
                    seen.add(u)
                    nxt.append(u)
                    yield level, u, not (rivals and any(u.startswith(r) for r in rivals))
            frontier = nxt

    def describe(self, tier):
        return {"family": self.name, "tokens": [t.decode("latin-1") for t in self.tokens], "max_tokens": self.L[tier],
                "embeddings": [[p.decode("latin-1"), s.decode("latin-1")] for p, s in self.wraps],
                "sequences_before_dedupe": self.size(tier) * len(self.wraps), "note": self.note}
