"""Scan-level exploration on the *shipped* registry: every input of the scan-level token families is scanned with
instrumented shipped decoders + fixture keywords; the resulting Case is handed to a property's monitor.

This extends the engine properties (C03-C08) from synthetic hit sets to the hit streams the shipped decoders
actually produce, and gives C01/C10/C19 their scan-level inputs.
"""
from __future__ import annotations

from multidecoder.multidecoder import Multidecoder
from multidecoder.registry import build_registry

from mdmc import core, families, trees


class OutOfPrecondition(Exception):
    pass


_REG = None


def registry():
    """Shipped decoders + fixture keywords (the full shipped keyword set costs 20x and adds nothing to engine checks)."""
    global _REG
    if _REG is None:
        _REG = build_registry(families.FIXTURE_KW)
        if len(_REG) < 10:
            raise core.HarnessError(f"registry has only {len(_REG)} entries")
    return _REG


def to_spec(n):
    return (n.type, n.value, n.obfuscation, n.start, n.end, [to_spec(c) for c in n.children])


class Case:
    __slots__ = ("family", "data", "depth", "tree", "log", "size")

    def witness(self):
        return {"engine": "stream", "family": self.family, "data": self.data, "depth": self.depth}

    def model_registry(self):
        """The real decoders, as spec-returning functions for the reference machine.  Raises OutOfPrecondition when a
        decoder returns an out-of-bounds or empty-span hit (C06 only speaks about in-bounds, non-empty hits)."""

        def conv(dec):
            def f(value):
                out = []
                for h in dec(value):
                    if not (0 <= h.start < h.end <= len(value)):
                        if h.value:
                            raise OutOfPrecondition()
                    out.append(to_spec(h))
                return out

            return f

        return [conv(d) for d in registry()]


def plan(tier, lite=0, fams=None):
    """Units: (family, tier, first token index, lite)."""
    out = []
    for name in fams or families.STREAM_FAMILIES[tier]:
        f = families.get(name)
        for (n, t, i) in f.units(tier):
            out.append((n, t, i, lite))
    return out


def depth_for(data: bytes) -> int:
    return 10


def cases(unit, rec, depths=(10,), repeat=1):
    """Yield Case objects for every state of the unit (x embeddings x depths); crashes/hangs are *not* this engine's
    business (C01 owns totality): they are counted and skipped."""
    name, tier, first, lite = unit
    fam = families.get(name)
    reg = registry()
    L = fam.L[tier] - lite
    for level, s, unique in fam.states(tier, first, L):
        rec.mark("states", s, unique)
        for pre, suf in fam.wraps:
            data = pre + s + suf
            for depth in depths:
                c = Case()
                c.family, c.data, c.depth, c.size = name, data, depth, len(data)
                rec.count("evaluations")
                core.WATCH.serial += 1
                core.WATCH.armed = True
                try:
                    for _ in range(repeat):  # repeat > 1: the LAST of several identical scans is monitored (state carried between scans)
                        c.tree, c.log = trees.iscan(reg, data, depth)
                except core.Hang:
                    rec.note("scan-hung (reported by C01)")
                    continue
                except Exception:  # noqa: BLE001
                    rec.note("scan-raised (reported by C01)")
                    continue
                finally:
                    core.WATCH.armed = False
                yield c


def run_unit(unit, rec, monitor, depths=(10,), repeat=1):
    last = None
    for c in cases(unit, rec, depths, repeat):
        monitor(rec, c)
        last = c
    if last is not None:
        rec.sample({"family": last.family, "data": last.data, "depth": last.depth,
                    "tree_shape": core.short(trees.shape(last.tree), 300)})


def replay(w, rec, monitor):
    c = Case()
    c.family, c.data, c.depth, c.size = w.get("family", "?"), w["data"], w["depth"], len(w["data"])
    rec.count("evaluations")
    ok, res = rec.guard("stream.scan", w, c.size, trees.iscan, registry(), c.data, c.depth)
    if ok:
        c.tree, c.log = res
        monitor(rec, c)
