"""E2 hitx: explicit-state exploration of the scan engine over *hit configurations*.

A configuration = (text T of N distinct bytes, ordered list of <=K hits, depth budget k, recursion mode).
Every configuration is executed on the real `Multidecoder(registry).scan(T, k)` through a synthetic registry
(one decoder per hit, registry order = list order, plus one trailing decoder that implements the recursion
mode on decoded values) *and* on the reference machine of refs/engine_model.py; monitors look at both.
"""
from __future__ import annotations

import itertools

from multidecoder.multidecoder import Multidecoder
from multidecoder.node import Node

from mdmc import trees
from mdmc.refs.engine_model import R, Trace, ref_scan

# hit kinds ----------------------------------------------------------------------------------------
#  p   plain, type "p": value is the covered text                         -> becomes an open context
#  q   plain, type "q": same, other type (so a duplicate of a p-hit nests instead of restating it)
#  u   value is the covered text upper-cased                              -> still a context (case-insensitive test)
#  d1  decoded, value b"Z"            (shorter or equal)                  -> decoded region, searched recursively
#  dE  decoded, value same length, all different
#  dL  decoded, value = covered text + b"YZ" (longer, shares a prefix with the raw text)
#  k   value is the covered text but the decoder supplies one child      -> treated as decoded, child is descended into
#  dk  decoded value b"WXYZ" with a supplied child on [1,2)
#  kk  like k, but the supplied sub-structure is two levels deep (child with a grandchild): depth accounting while descending
#  dT  type "", value = the whole text T: restates the root when it sits at offset 0, otherwise decodes to the
#      input again (the natural "always decodable again" case: searching its value yields the same hits)
KINDS = ("p", "q", "u", "d1", "dE", "dL", "k", "dk", "dT", "kk")
#  kinds that only make sense over the high-byte text (TEXT_HI): uL Latin-1 letters in the other case (same length, NOT equal under
#  ASCII case folding -> decoded), dS the covered text with the bytes that are invalid UTF-8 stripped, dB the covered text behind a UTF-8 BOM
KINDS_HI = ("p", "u", "uL", "dS", "dB", "d1")
#  e   a result with an EMPTY value (a decoder that decoded to nothing): the engine discards it before anything else, so it must not
#      open, close or shadow anything.  Only used by properties stated for "all registries" (C05); C06 excludes empty values by statement.
KINDS_E = ("p", "q", "d1", "k", "e")
#  results that carry the library's OWN vocabulary of labels and types although they come from another decoder: labels and types are free-form
#  strings, only value-vs-covered-text (and supplied children) decides whether a result was decoded.  dM decoded + label "MixedCase",
#  uM case variant + "MixedCase" (context), dU decoded + type network.url / label escape.percent, pS plain text typed "string" (context),
#  dC decoded typed shell.cmd / label unescape.shell.carets
#  dP decoded, but indistinguishable by (type, value, label) from the PLAIN hit "p" on the first bytes of the text: its value is T[0:b-a]
#  (so on [0,k) it is that plain hit, anywhere else a decoded one) - whether a result was decoded is a fact about value vs covered text of THAT hit
KINDS_LBL = ("p", "dM", "uM", "dU", "pS", "dP", "d1")
TEXT_HI = b"\xe9b\xff\xc9d\xfe"
MODES = ("r0", "rp", "rd", "rk")
#  rs every decoded value is matched again, whole, by a decoder reporting type "d" (the type of kind d1): under a d1 result that hit restates
#     its parent and is dropped, under a result of another type with the same value (kind dZ) it is a genuine child
ALL_MODES = MODES + ("rs",)
KINDS_RS = ("d1", "dZ", "p", "q")
#  r0 nothing is found in decoded values           rp one plain hit on the first byte of any decoded value
#  rd every decoded value decodes again (value + b"!"), so only the depth budget stops the recursion
#  rk a hit with a supplied child on every decoded value


def text(n: int) -> bytes:
    return bytes(range(97, 97 + n))


def intervals(n: int):
    return [(a, b) for a in range(n) for b in range(a + 1, n + 1)]


def spec(T: bytes, a: int, b: int, kind: str):
    cov = T[a:b]
    if kind == "p":
        return ("p", cov, "", a, b, [])
    if kind == "q":
        return ("q", cov, "", a, b, [])
    if kind == "u":
        return ("u", cov.upper(), "lbl", a, b, [])  # labelled but undecoded (like a MixedCase keyword hit)
    if kind == "d1":
        return ("d", b"Z", "d1", a, b, [])
    if kind == "dE":
        return ("d", b"Q" * (b - a), "", a, b, [])  # decoded without a label (like a PowerShell byte array)
    if kind == "dL":
        return ("d", cov + b"YZ", "dL", a, b, [])
    if kind == "k":
        return ("k", cov, "", a, b, [("kc", b"q", "", 0, 1, [])])
    if kind == "dk":
        return ("k", b"WXYZ", "dk", a, b, [("kc", b"X", "", 1, 2, [])])
    if kind == "dT":
        return ("", T, "dT", a, b, [])
    if kind == "uL":
        v = bytes(c - 0x20 if 0xE0 <= c <= 0xFE and c != 0xF7 else (c + 0x20 if 0xC0 <= c <= 0xDE and c != 0xD7 else c) for c in cov)
        return ("l", v, "" if v != cov else "same", a, b, [])
    if kind == "dS":
        v = bytes(c for c in cov if c < 0x80) or b"-"
        return ("s", v, "", a, b, [])
    if kind == "dB":
        return ("b", b"\xef\xbb\xbf" + cov, "bom", a, b, [])
    if kind == "dM":
        return ("m", b"Q" * (b - a), "MixedCase", a, b, [])
    if kind == "uM":
        return ("api", cov.upper(), "MixedCase", a, b, [])
    if kind == "dU":
        return ("network.url", b"u" + cov, "escape.percent", a, b, [])
    if kind == "pS":
        return ("string", cov, "", a, b, [])
    if kind == "dC":
        return ("shell.cmd", cov[1:] + b"c", "unescape.shell.carets", a, b, [])
    if kind == "dZ":
        return ("z", b"Z", "dZ", a, b, [])
    if kind == "dP":
        return ("p", T[0:b - a], "", a, b, [])
    if kind == "e":
        return ("e", b"", "e", a, b, [])
    if kind == "dH":
        return ("d", b"Q" * max(1, (b - a) // 2), "", a, b, [])  # decoded WITHOUT a label to a value of about half the covered length
    if kind == "kk":
        return ("k", cov, "", a, b, [("kc", b"qr", "", 0, 1, [("kg", b"g", "", 0, 1, [])])])
    raise ValueError(kind)


def mode_specs(mode: str, T: bytes, value: bytes):
    """What the trailing decoder answers on a value other than T."""
    if value == T or mode == "r0" or len(value) > 64:
        return []
    if mode == "rp":
        return [("p", value[0:1], "", 0, 1, [])]
    if mode == "rd":
        return [("d", value + b"!", "rd", 0, len(value), [])]
    if mode == "rk":
        return [("k", value, "", 0, len(value), [("kc", b"r", "", 0, 1, [])])]
    if mode == "rs":
        return [("d", value, "", 0, len(value), [])]
    raise ValueError(mode)


class Run:
    """One configuration executed on implementation and model."""

    __slots__ = ("T", "hits", "depth", "mode", "grouped", "impl", "log", "model", "trace", "error", "ireg")

    def describe(self):
        return {"engine": "hitx", "T": self.T, "hits": [list(h) for h in self.hits], "depth": self.depth,
                "mode": self.mode, "grouped": self.grouped}


# how a synthetic decoder builds and handles its result objects before it returns them (all of it is the decoder's business):
#  "touch"     reads every read-only attribute / method of each result first (original, repr, iteration, flatten, ==) as a tracing decoder would
#  "late"      constructs an empty Node and assigns type, value, label, span and children afterwards
#  "bytearray" reports values as bytearray objects instead of bytes
HOWS = ("touch", "late", "bytearray")


def make_node(spec, how):
    t, v, o, a, b, kids = spec
    if how == "late":
        n = Node("", b"?", "", 0, 0)
        n.type, n.value, n.obfuscation = t, v, o
        n.end, n.start = b, a
        ch = [make_node(k, how) for k in kids]
        for c in ch:
            c.parent = n
        n.children = ch
        return n
    if how == "bytearray":
        return Node(t, bytearray(v), o, a, b, children=[make_node(k, how) for k in kids])
    n = trees.mknode(spec)
    if how == "touch":
        for x in [n] + trees.walk(n):
            _ = (x.original, repr(x), list(x), x == x, x.flatten(), x.parent, len(x.children))
    return n


def registries(T: bytes, hits, mode: str, grouped: bool):
    """(model registry, impl registry) for a configuration.  hits: list of (a, b, kind)."""
    specs = [spec(T, a, b, k) for (a, b, k) in hits]
    groups = [specs] if grouped is True else [[s] for s in specs]

    def model_dec(group):
        return lambda value: list(group) if value == T else []

    how = grouped if grouped in HOWS else None

    def impl_dec(group):
        return lambda value: [make_node(s, how) for s in group] if value == T else []

    mreg = [model_dec(g) for g in groups] + [lambda value: mode_specs(mode, T, value)]
    if grouped == "shared":
        # a registry is a list: the SAME callable may be listed more than once (one object per distinct hit spec, repeated in place)
        cache = {}
        ireg = [cache.setdefault(repr(g), impl_dec(g)) for g in groups]
    elif grouped == "bound":
        # entries that are equal (==) without being identical: bound methods of one object per distinct hit spec, taken anew per position
        class Dec:
            def __init__(self, group):
                self.group = group

            def find(self, value):
                return [trees.mknode(s) for s in self.group] if value == T else []

        cache = {}
        ireg = [cache.setdefault(repr(g), Dec(g)).find for g in groups]
    else:
        ireg = [impl_dec(g) for g in groups]
    ireg = ireg + [lambda value: [make_node(s, how) for s in mode_specs(mode, T, value)]]
    return mreg, ireg


def execute(T: bytes, hits, depth: int, mode: str = "r0", grouped: bool = False) -> Run:
    r = Run()
    r.T, r.hits, r.depth, r.mode, r.grouped = T, tuple(hits), depth, mode, grouped
    mreg, ireg = registries(T, hits, mode, grouped)
    r.trace = Trace()
    r.model = ref_scan(R("", T, "", 0, len(T)), depth, mreg, r.trace)
    r.log = trees.Log()
    r.error = None
    r.ireg = ireg
    r.impl = Multidecoder(trees.instrument(ireg, r.log)).scan(T, depth)
    return r


# enumeration ----------------------------------------------------------------------------------------


def text_for(n: int, hi: bool = False) -> bytes:
    return TEXT_HI[:n] if hi else text(n)


def candidates(n: int, kinds=KINDS):
    return [(a, b, k) for (a, b) in intervals(n) for k in kinds]


def sort_key(h):
    return (h[0], -h[1])


def configs_from(first, n: int, kmax: int, kinds=KINDS, tie_perms_only: bool = False):
    """All ordered hit lists of length 1..kmax that start with `first` (registry order = list order).

    tie_perms_only: enumerate only lists that are already in engine sort order (start asc, end desc); hits with
    identical spans still appear in every relative order.  Sound as a reduction because `sorted` erases the
    registry order of hits with different spans -- and that lemma is itself checked by the full-permutation run.
    """
    cands = candidates(n, kinds)

    def rec(prefix):
        yield prefix
        if len(prefix) >= kmax:
            return
        for c in cands:
            if tie_perms_only and sort_key(c) < sort_key(prefix[-1]):
                continue
            yield from rec(prefix + (c,))

    yield from rec((first,))
