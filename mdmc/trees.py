"""Helpers over multidecoder Node trees (read-only) and the instrumented scan used by the engine-level monitors."""
from __future__ import annotations

import sys

from multidecoder.multidecoder import Multidecoder
from multidecoder.node import Node


def tup(n: Node):
    return (n.type, n.value, n.obfuscation, n.start, n.end, tuple(tup(c) for c in n.children))


def shape(n: Node):
    """Canonical outcome (types/labels/spans, not values) for counting distinct outcomes."""
    return (n.type, n.obfuscation, n.start, n.end, tuple(shape(c) for c in n.children))


def shape_flat(n: Node):
    """Same information as shape(), as a flat pre-order tuple built without recursion (for trees deeper than the recursion limit)."""
    out = []
    stack = [(n, 0)]
    while stack:
        x, d = stack.pop()
        out.append((d, x.type, x.obfuscation, x.start, x.end))
        for c in reversed(x.children):
            stack.append((c, d + 1))
    return tuple(out)


def walk(n: Node, limit: int = 200000):
    """Identity-based pre-order walk (excluding n) that cannot loop: stops at `limit` nodes."""
    out = []
    stack = [iter(n.children)]
    while stack:
        try:
            c = next(stack[-1])
        except StopIteration:
            stack.pop()
            continue
        out.append(c)
        if len(out) > limit:
            raise RuntimeError("tree walk exceeded node limit (cycle?)")
        stack.append(iter(c.children))
    return out


def is_context(n: Node) -> bool:
    """An undecoded context: its value is the text it covers (ignoring ASCII case) and it carries no sub-structure it
    did not get from the scan.  (The second part cannot be seen from the tree alone; callers pass provenance.)"""
    p = n.parent
    if p is None:
        return True
    return n.value.lower() == p.value[n.start : n.end].lower()


def mknode(spec) -> Node:
    t, v, o, a, b, kids = spec
    return Node(t, v, o, a, b, children=[mknode(k) for k in kids])


# --------------------------------------------------------------------------------------------------
# instrumented scan: wraps every registry entry (the registry is a plain public list of callables)

_SCAN_NODE_CODE = Multidecoder.scan_node.__code__


def _scan_depth() -> int:
    """Number of scan_node activations on the stack (the recursion level of the search being performed)."""
    f = sys._getframe(1)
    n = 0
    while f is not None:
        if f.f_code is _SCAN_NODE_CODE:
            n += 1
        f = f.f_back
    return n


class Log:
    __slots__ = ("searches", "hits", "supplied", "keep", "has_kids")

    def __init__(self):
        self.searches = []  # (search id, level, value)         one per (node searched)
        self.hits = {}  # id(node) -> (search id, registry index, position, text, a, b)
        self.supplied = {}  # id(node) -> id(top hit) for every decoder-supplied descendant, at return time
        self.has_kids = set()  # id(hit) for hits that came with decoder-supplied children
        self.keep = []  # keeps every returned object alive so that ids stay unique


def instrument(registry, log: Log):
    """Return a registry of wrappers that record what each decoder returned, *before* the engine touches it."""
    state = {"sid": -1}

    class Wrapped:
        """Callable wrapper that is equal to another wrapper exactly when the wrapped registry entries are equal (a registry may list the
        same callable twice, or two entries that are == without being identical)."""

        __slots__ = ("fn", "dec")

        def __init__(self, fn, dec):
            self.fn, self.dec = fn, dec

        def __call__(self, value):
            return self.fn(value)

        def __eq__(self, other):
            return isinstance(other, Wrapped) and self.dec == other.dec

        def __hash__(self):
            return hash(self.dec)

    def wrap(ri, dec):
        def wrapped(value):
            if ri == 0:  # decoders are called in registry order for every node searched
                state["sid"] += 1
                log.searches.append((state["sid"], _scan_depth(), value))
            hits = dec(value)
            sid = state["sid"]
            for k, h in enumerate(hits):
                log.hits[id(h)] = (sid, ri, k, value, h.start, h.end)
                log.keep.append(h)
                st = list(h.children)
                if st:
                    log.has_kids.add(id(h))
                while st:
                    c = st.pop()
                    log.supplied[id(c)] = id(h)
                    log.keep.append(c)
                    st.extend(c.children)
            return hits

        return Wrapped(wrapped, dec)

    return [wrap(i, d) for i, d in enumerate(registry)]


def iscan(registry, data: bytes, depth: int):
    log = Log()
    md = Multidecoder(instrument(registry, log) or [lambda v: []])
    tree = md.scan(data, depth)
    return tree, log


def abs_nodes(tree):
    """(node, absolute start in the root value) for every node reachable from the root through undecoded contexts."""
    out = []

    def rec(n, base):
        for c in n.children:
            a = base + c.start
            out.append((c, a))
            if c.value.lower() == n.value[c.start : c.end].lower():
                rec(c, a)

    rec(tree, 0)
    return out


_POISON = None


def result_is_callers(fn, data, hits) -> bool:
    """The list a decoder returns belongs to the caller: after the caller has appended to it, the same call must give the same result again
    (a decoder that hands out a shared or remembered list object fails this)."""
    global _POISON
    if _POISON is None:
        _POISON = Node("poison", b"poison", "poison", 0, 0)
    before = [tup(h) for h in hits]
    hits.append(_POISON)
    try:
        again = fn(data)
        return again is not hits and all(h is not _POISON for h in again) and [tup(h) for h in again] == before
    finally:
        if hits and hits[-1] is _POISON:
            hits.pop()


def copies_keep_context(n: Node):
    """Ways a caller hands a result node on - shallow copy, deep copy, pickle round trip (every protocol), alone and inside a list of findings.
    Every copy must still say which text it replaced (`original`) and be equal to the node.  Returns the name of the first way that fails."""
    import copy
    import pickle

    want = (tup(n), n.original)
    ways = [("copy.copy", lambda: copy.copy(n)), ("copy.deepcopy", lambda: copy.deepcopy(n)), ("deepcopy([node])", lambda: copy.deepcopy([n])[0])]
    for proto in range(2, pickle.HIGHEST_PROTOCOL + 1):
        ways.append((f"pickle protocol {proto}", lambda proto=proto: pickle.loads(pickle.dumps(n, protocol=proto))))
        ways.append((f"pickle([node]) protocol {proto}", lambda proto=proto: pickle.loads(pickle.dumps([n], protocol=proto))[0]))
    for name, fn in ways:
        c = fn()
        if (tup(c), c.original) != want:
            return name
    return None
