"""Scan-level token families shared by the checks (every family is enumerated exhaustively up to its bound).

Alphabets are taken from the literals the shipped decoders' regexes distinguish (see DESIGN.md section 4); each family
targets one decoder group, `mix` covers decoder x decoder interactions.
"""
from __future__ import annotations

import os

from mdmc.core import VERIF
from mdmc.engines.seqx import Family

FIXTURE_KW = os.path.join(VERIF, "fixtures", "kw")

B64_ECHO = b"ZQBjAGgAbwAgAGIAZQBlAA=="  # utf-16 "echo bee"
B64_URL = b"aHR0cDovL2V4YW1wbGUuY29tL2EuZXhlIDguOC40LjQ="  # http://example.com/a.exe 8.8.4.4
HEX_URL = b"687474703a2f2f6578616d706c652e636f6d2f61"  # http://example.com/a

_F = {}


def _add(f):
    _F[f.name] = f
    return f


_add(Family(
    "shell",
    ["cmd", "c^m^d", " ", "a", "^", '"', "'", "\r", "\n", "(", ")", "\x00", " /c "],
    {"quick": 4, "thorough": 5},
    wraps=[(b"", b""), (b"x ", b"")],
))
_add(Family(
    "pwsh",
    ["powershell", "pwsh", ".exe", " ", "-e", "/e", "-enc", "-encodedcommand", " -nop", "^", "\r\n", '"', "'", "'(", "')", ";",
     "QQBCAEMA", "AAAA", "QQ==", "=", "cmd /c "],
    {"quick": 3, "thorough": 4},
))
_add(Family(
    "xml",
    ["&#65;", "&#x41;", "&#X4a;", "&#xzz;", "&#x4g;", "&#256;", "&#0;", "&#00065;", "&#x4;", "&", ";", "&#104;&#116;&#116;&#112;&#58;&#47;&#47;"],
    {"quick": 4, "thorough": 5},
))
_add(Family(
    "esc",
    ["chr(", "chrw(", "ChrB(", "65", "0", "065", "99999", "55296", "1114112", ")", "unescape('", "%41", "%zz", "%", "%u0041", "%ud83d", "%ude00", "+", "')",
     "a\x00", "\xe9\x00", "\x00\x00", "\x7f\x00", "h\x00t\x00t\x00p\x00:\x00/\x00/\x00"],
    {"quick": 3, "thorough": 4},
))
_add(Family(
    "b64hex",
    ['atob("', "Base64Decode('", "FromBase64String('", "[System.Convert]::", "FromHexString('", '")', "')",
     "ZHVjaw==", "ZHVja3M=", "ZHVj", "ZHV", "Z===", "aHR0cDovL2V4YW1wbGUuY29tL2EuZXhl", "IDguOC40LjQ=", "\n", "&#xA;", "&#10;",
     "68747470", "3a2f2f6578616d706c652e636f6d", "3A2F2F6578616D706C652E636F6D", "0", "g",
     " -bxor ", " -xor", "35", "255", "256", "999", "$k"],
    {"quick": 3, "thorough": 4},
))
_add(Family(
    "net",
    ["http://", "FTP://", "hTTps://", "a.com", "example.com", "1.2.3.4", "0x7f.1", "%41", "%2f", "%zz", "%5B", "[", "::1", "]", ":", "80",
     "99999", "@", "/", "..", ".", "?", "#", "'", "(", ")", "\x05", "0", "x", " ", "bob", ".org", "/abc/def/"],
    {"quick": 3, "thorough": 4},
))
_add(Family(
    "winpath",
    ["\\\\", "\\", ".", "?", "UNC", "C:", "abc", "..", "a.com", "1.2.3.4", "@SSL", "@80", "x.exe", "$", "example.com", " ", "/usr", "/lib"],
    {"quick": 4, "thorough": 5},
))
_add(Family(
    "concat",
    ['"', "'", "a", "b", "+", "&", "&amp;", " ", "_", "\n", "reverse(", "StrReverse(", ")", ".replace(", ",", "Replace(", " -replace ",
     "/a/g", "e//:ptth", "http://", "a.com/x"],
    {"quick": 4, "thorough": 5},
))
_add(Family(
    "kw",
    ["strlen", "StrLen", "STRLEN", "AutoOpen", "cmd", "http", "user-agent", "windows", "virtualalloc", " ", "a", "1", ".", '"', "+", "\xe9",
     "_"],
    {"quick": 4, "thorough": 5},
))
_add(Family(
    "mix",
    ["cmd /c ", "powershell", " -e " + B64_ECHO.decode(), "^", '"', "'", "(", ")", " ", "+", "http://", "example.com", "/a.exe", "1.2.3.4",
     "%41", "&#104;&#116;&#116;&#112;&#58;&#47;&#47;", B64_URL.decode(), HEX_URL.decode(), "atob(\"", '")', "strlen", "StrLen",
     "\\\\a.com\\abc\\x.exe", "bob@", "CreateObject(", "reverse(", "\x00", "h\x00t\x00t\x00p\x00:\x00/\x00/\x00a\x00.\x00c\x00o\x00m\x00",
     "\r\n", " -bxor 35"],
    {"quick": 3, "thorough": 4},
))

_add(Family(
    "ctx",
    ["h\x00t\x00t\x00p\x00:\x00/\x00/\x00a\x00.\x00c\x00o\x00m\x00", B64_URL.decode(), HEX_URL.decode(), "&#104;&#116;&#116;&#112;&#58;&#47;&#47;&#97;&#46;&#99;&#111;",
     'atob("aHR0cDovL2EuY28=")', "'a' + 'b.exe'", "http://ex%61mple.com/a/../b", "1.2.3.4", "bob@example.org", "strlen", " ", "chr(65)", "unescape('%41')",
     "FromBase64String('R1ZASA==') -bxor 35", "\\\\a.com\\abc\\x.exe", "StrReverse('moc.a')"],
    {"quick": 2, "thorough": 3},
    wraps=[(b"x CreateObject(", b")"), (b'y "powershell -c ', b'" z'), (b"(cmd /c ", b")"), (b"zz /abc/def/", b".ghi")],
    note="decodable items placed inside undecoded contexts that start at an offset > 0",
))

_add(Family(
    "layered",
    [" -bxor 35 ", "-xor 7;", "\"FromBase64\" + \"String('R1ZASA==')\"", "reverse(\")'==ASAZ1R'(gnirtS46esaBmorF\")",
     'atob("RnJvbUJhc2U2NFN0cmluZygnUjFaQVNBPT0nKQ==")', "RnJvbUhleFN0cmluZygnNDc1NjQwNDg0NzU2NDA0OCcp", "FromBase64String('R1ZASA==')",
     "cmd /c ", "powershell ", '"', "'", " ", "unescape('%2Dbxor%2035')", "StrReverse('53 roxb-')"],
    {"quick": 3, "thorough": 4},
    note="context-dependent decoders (xor key, shell look-behind) whose context sits OUTSIDE a decodable layer and whose subject only exists INSIDE it, and vice versa",
))

# complete, self-delimiting instances of every decoder's language + separators: every text of <= 3 of them, so that every ordered pair of
# results (same decoder or two different decoders; separated, adjacent or glued) occurs in one searched text
PAIR_ITEMS = [
    "http://example.com/a/b.exe", "http://example.com/%7Euser/%41", "http://ex%2fample.org/x%2fy", "HTTP://User:pw@8.8.4.4:8080/a/../b?q=1#f", "ftp://[::1]/x",
    "hxxp://example.com", "8.8.4.4", "example.com", "bob@example.org", "/usr/local/bin", "C:\\Users\\Public\\a.txt", "\\\\server.example.com\\share\\f.txt",
    "\\\\8.8.4.4\\share\\x.dll", "C:\\tmp\\out", "evil.exe", "CreateObject(\"WScript.Shell\")", B64_URL.decode(), "QUJDR0QUJDR0QUJDR0QUJQ==", HEX_URL.decode(),
    'atob("aHR0cDovL2EuY28=")', "FromBase64String('R1ZASA==')", "&#104;&#116;&#116;&#112;&#58;&#47;&#47;&#97;&#46;&#99;&#111;", "chr(65)", "unescape('%41%2e%62')",
    "h\x00t\x00t\x00p\x00:\x00/\x00/\x00a\x00.\x00c\x00o\x00m\x00", "'a' + 'b.exe'", "reverse('exe.a')", "StrReverse('moc.a')", '"aXb".replace("X","-")',
    "'aXb' -replace 'x','-'", "powershell -e QQBCAEMA", '"powershell -c ls"', "(cmd /c echo ^a)", "strlen", "StrLen", " -bxor 35 ",
]
PAIR_SEPS = ["", " ", "\n", ";", "\x00"]
_add(Family("pairs", [i + s for i in PAIR_ITEMS for s in PAIR_SEPS], {"quick": 2, "thorough": 2},
            note="every ordered pair of complete decoder instances (same decoder or two different ones), glued or separated by each of 5 separators"))

_ALL_BYTES = [bytes([v]).decode("latin-1") for v in range(256)]
_SWEEP_WRAPS = [
    (b"", b""), (b"cmd /c echo ", b" done"), (b"x c^m^d /c ", b"^"), (b"powershell -e ", b"QQBCAEMA"), (b"'powershell -c ", b"'"),
    (b"http://a.com/", b"/x?y#z"), (b"http://", b"a.com/"), (b"see ftp://u:p@1.2.3.4:21/%", b"1 now"), (b"bob", b"@example.org"), (b"\\\\a.com\\abc", b"\\x.exe"),
    (b"/usr/lib", b"/abc.def"), (b'"a', b'" + "b"'), (b"reverse('", b"cba')"), (b'"x".replace("', b'", "y")'), (b"unescape('%4", b"1')"),
    (b"&#65;&#66;&#67;&#68;&#6", b";&#70;"), (b"chr(6", b")"), (b"atob(\"QUJD", b"RA==\")"), (b"aHR0cDovL2V4YW1wbGUuY29t", b"L2EuZXhlIDguOC40LjQ="),
    (b"687474703a2f2f6578616d706c", b"652e636f6d2f61"), (b"h\x00t\x00t\x00p\x00:\x00/\x00/\x00", b"\x00a\x00.\x00c\x00o\x00m\x00"),
    (b"CreateObject(", b")"), (b"strlen", b"StrLen"), (b"FromBase64String('R1ZASA==') -bxor ", b"5"), (b"MZ", b"PE\x00\x00"),
]
_add(Family("bytes1", _ALL_BYTES, {"quick": 1, "thorough": 1}, wraps=_SWEEP_WRAPS,
            note="every byte value 0..255 at one position of 25 decoder-specific templates"))
_add(Family("bytes2", _ALL_BYTES, {"quick": 1, "thorough": 2}, wraps=_SWEEP_WRAPS[:1] + _SWEEP_WRAPS[5:6] + _SWEEP_WRAPS[11:12] + _SWEEP_WRAPS[14:16],
            note="every pair of byte values at one position of 5 templates (thorough)"))

STREAM_FAMILIES = {
    "quick": ["shell", "pwsh", "net", "concat", "kw", "mix", "xml", "b64hex", "esc", "winpath", "ctx", "layered", "pairs", "bytes1"],
    "thorough": ["shell", "pwsh", "net", "concat", "kw", "mix", "xml", "b64hex", "esc", "winpath", "ctx", "layered", "pairs", "bytes1", "bytes2"],
}


def get(name) -> Family:
    return _F[name]


def names():
    return list(_F)
