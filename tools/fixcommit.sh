#!/bin/bash
# usage: tools/fixcommit.sh "<commit message>"  -- run the unedited suite on /repo's working tree, commit if green
set -e
cd /repo
if git status --short | grep -q '^.. tests/'; then echo "tests were edited - refusing"; exit 1; fi
out=$(/venv/bin/python -m pytest -q -p no:cacheprovider 2>&1 | tail -1)
echo "$out"
case "$out" in *"308 passed"*) ;; *) echo "suite not green"; exit 1;; esac
git commit -qam "$1"
git log --oneline | head -1
