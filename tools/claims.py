"""What MANIFEST.json claims.  Edited by hand; tools/gen_manifest.py turns it into MANIFEST.json."""
HOOK_COMMITS = []
ENGINES = [
    {"name": "hitx", "path": "mdmc/engines/hitx.py", "serves_properties": ["C03", "C04", "C05", "C06", "C07", "C08"],
     "kind_free_text": "explicit-state exploration of all hit configurations (<=K hits over an N-byte text x registry order x depth x recursion mode) on the real scan engine, compared with a reference interval-nesting machine"},
    {"name": "seqx+streams", "path": "mdmc/engines/seqx.py, mdmc/engines/streams.py", "serves_properties": ["C01", "C03", "C04", "C05", "C06", "C07", "C08", "C10", "C19"],
     "kind_free_text": "breadth-first exhaustive enumeration of token sequences up to a length bound per decoder alphabet, canonicalised to bytes, executed on the real scan() with the shipped decoders"},
]
CLAIMS = {
    "C06": dict(engine="hitx", design_ref="DESIGN.md 3 (E2), 4 (C06)",
                technique="explicit-state enumeration of hit configurations + conformance of every execution with a reference machine",
                text="Every configuration of <=3 hits (9 kinds, all intervals, all registry orders, depth budgets -1..3, 4 recursion modes) over a 4/5-byte text, and the shipped decoders' hit streams on every token sequence of the scan-level families, is executed on the real engine and must produce exactly the model's tree. Exhaustive within the bound; right level because the engine's behaviour depends only on order/overlap/kind of a handful of hits.",
                note="Trusted: the 40-line reference machine (refs/engine_model.py), CPython sorted() stability. Bound: K<=3 (K=4 in sort order only), N<=5."),
}
CLAIMS.update({
    "C01": dict(engine="seqx+streams", design_ref="DESIGN.md 3 (E1), 4 (C01)",
                technique="bounded-exhaustive BFS over token sequences of per-decoder alphabets, at scan() level and at decoder level, plus structured PE/byte-array/number generators with every truncation point",
                text="Every byte string spelled by <=L tokens of 10 scan-level and 12 decoder-level alphabets (taken from the literals the decoders' regexes distinguish), every PE header variant x every truncation length, every chr() argument 0..99999, every xor key 0..999, is scanned / fed to the decoder under a no-progress watchdog; any exception of any type or a hang is a violation, and flatten/iteration/summary/JSON views must complete on every result. Exhaustive for the bound; totality defects are local interactions of 2-5 tokens.",
                note="Cannot reach inputs longer than the bound or super-linear regex time on long inputs. Hangs inside C code are only seen by the pool stall timer."),
    "C03": dict(engine="hitx", design_ref="DESIGN.md 4 (C03)",
                technique="explicit-state enumeration of hit configurations + exhaustive token-sequence scans, structural monitor on every node of every tree",
                text="Well-formedness (root fields, parent pointers by identity, single occurrence, pre-order iteration, 0<=start<=end<=len(parent.value)) is checked on every node of every tree produced by all hit configurations within the bound (synthetic registries, incl. decoder-supplied children) and by the shipped decoders on every token sequence of the scan-level families.",
                note="Bound as C06 plus the scan-level families; two spans pinned by tests/test_decoders/test_shell.py are known findings matched by cause predicate."),
    "C04": dict(engine="hitx", design_ref="DESIGN.md 4 (C04)",
                technique="explicit-state enumeration of hit configurations; per-hit provenance recorded by registry wrappers and compared after the scan",
                text="For every hit object kept in any explored tree the sum of context start offsets, the span length and the original slice are compared with what the decoder reported at return time.",
                note="Wrappers identify hits by object identity; decoder-supplied children are excluded."),
    "C05": dict(engine="hitx", design_ref="DESIGN.md 4 (C05)",
                technique="explicit-state enumeration of hit configurations; laminarity and suppression monitors on every engine-built child list",
                text="Every child list the engine builds in every explored execution must have non-decreasing starts and strictly increasing ends; no hit may be kept inside a decoded hit of the same search, and a hit inside an open context may not be attached beside or above it.",
                note="Engine-built vs decoder-supplied lists are separated by wrapper provenance."),
    "C07": dict(engine="hitx", design_ref="DESIGN.md 4 (C07)",
                technique="exhaustive enumeration of configurations x every depth limit; ladder comparison tree(k) vs tree(k+1) minus deepest pass",
                text="Every configuration/input is scanned at every depth limit of a range including negative values and values beyond the recursion actually possible; decoder invocations are logged with their recursion level (must be < k), and tree(k) must equal tree(k+1) with the level-k pass removed. Always-decodable registries (rd, rk, dT) check termination.",
                note="Recursion level is read as the number of scan_node activations on the stack."),
    "C08": dict(engine="hitx", design_ref="DESIGN.md 4 (C08)",
                technique="exhaustive enumeration; differential re-scan of every decoded node's value on a fresh scanner",
                text="For every decoded node without decoder-supplied sub-structure in every explored tree, the children must equal those of an isolated scan_node(Node(type,value), remaining depth).",
                note="Assumes decoders are pure (C09 checks that)."),
})
CLAIMS.update({
    "C12": dict(engine="seqx+streams", design_ref="DESIGN.md 4 (C12)",
                technique="exhaustive enumeration of URLs / Windows paths from a bounded grammar; part children re-derived from the node value by an independent splitter/decoder",
                text="Every URL of two bounded products of the RFC 3986 grammar (all scheme/userinfo/host/port combinations; every path of <=3/4 segments over 9 segment kinds) and every Windows path of 12 prefixes x <=3/5 segments x 5 file names is fed to the decoder in 3-4 embeddings; for every reported node the expected part children (type, value, label, span, order) are recomputed from the node's value without urllib/ntpath and compared. Same oracle on every URL/path node of the net/winpath/mix scan-level families.",
                note="IPv6 canonical text from ipaddress; Windows forms on which the statement is silent are skipped by the reference normaliser."),
    "C16": dict(engine="seqx+streams", design_ref="DESIGN.md 4 (C16)",
                technique="exhaustive enumeration of command strings against a reference caret transducer, a regex-free cmd delimiter and a PowerShell invocation grammar",
                text="strip_carets on every string over {^,\",CR,LF,a} up to length 9/11 against a three-state transducer; find_cmd_strings on every <=4/5-token string of a 19-token alphabet x 4 embeddings against a regex-free reference (complete result lists compared, so forward and converse); PowerShell invocations: token x switches x every prefix of -encodedcommand x -// style x quoting x payload x caret at every position x context.",
                note="PowerShell generator restricted to the domain where the statement is unambiguous (listed in evidence assumptions). One known finding (end = len(data)-start, pinned by test_shell)."),
})
CLAIMS.update({
    "C13": dict(engine="seqx+streams", design_ref="DESIGN.md 4 (C13)",
                technique="exhaustive enumeration of payload lengths / paddings / acceptance boundaries / line-break assignments / hex runs / xor keys; own RFC 4648 and hex decoders as reference",
                text="Converse: payloads of every length 0..40/64 x 5 byte classes x call forms x embeddings, every acceptance-rule boundary on both sides, every assignment of 9 line-break spellings to 6 gaps, hex runs x case x digit prefixes 0..24: exactly one node with the layer's label must cover exactly the encoded text with the payload as value. Forward: every base64/hex/xor node met anywhere (incl. xor keys 0..999 and the key-guessing form) is recomputed independently.",
                note="Own RFC 4648 / hex decoders (no binascii); LF is not treated as a neutral delimiter for bare base64."),
    "C14": dict(engine="seqx+streams", design_ref="DESIGN.md 4 (C14)",
                technique="exhaustive enumeration of escape sequences (token BFS + full value domains) against regex-free reference decoders",
                text="XML references (token sequences <=6/7 and the full reference set in every role), chr/chrw/chrb of every code point 0..99999, unescape() over an escape alphabet and all 256 %XX, UTF-16 runs over byte-pair tokens and every Latin-1 code unit: complete decoder result lists are compared with reference run finders and an own UTF-8 encoder; forward monitor on every such node in scans.",
                note="Decimal references limited to 3 digits; UTF-16 wide-string lists (NUL NUL separators) only forward."),
    "C15": dict(engine="seqx", design_ref="DESIGN.md 4 (C15)",
                technique="exhaustive enumeration of literal contents x quoting x separators x spacing x dialects against Python string semantics",
                text="Every chain of 2 literals (contents <=2/3 over 7 characters incl. operators), 3 and 4 literals, every reverse/StrReverse form, and the four replace dialects over (x,a,b) from the same literal set: the decoder's complete result list must be the single expected node; a sample of chains is also scanned with the shipped registry.",
                note="Literals without quote characters; empty search string in replace is outside the statement."),
    "C17": dict(engine="seqx", design_ref="DESIGN.md 4 (C17)",
                technique="exhaustive enumeration of (keyword list, data) over a 7-symbol alphabet against a regex-based reference search",
                text="Every data string of length <=6/7 over {a,A,b,1,.,space,0xE9} x every keyword of length 1-2 (and pairs from a 14-keyword menu, length-3 keywords) is searched with find_keywords and via a registry built from a generated directory; complete hit lists (span, value, type, MixedCase label) compared with the reference.",
                note="re.finditer on the escaped keyword is the definition of leftmost non-overlapping search."),
})
ALL = ["C%02d" % i for i in range(1, 21)]
NOT_APPLICABLE = {pid: "check not built yet (work in progress; will be claimed or justified before the end)" for pid in ALL if pid not in CLAIMS}
