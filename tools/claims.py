"""What MANIFEST.json claims.  Edited by hand; tools/gen_manifest.py turns it into MANIFEST.json."""
HOOK_COMMITS = []
ENGINES = [
    {"name": "hitx", "path": "mdmc/engines/hitx.py", "serves_properties": ["C03", "C04", "C05", "C06", "C07", "C08"],
     "kind_free_text": "explicit-state exploration of all hit configurations (<=K hits over an N-byte text x registry order x depth x recursion mode) on the real scan engine, compared with a reference interval-nesting machine"},
    {"name": "seqx+streams", "path": "mdmc/engines/seqx.py, mdmc/engines/streams.py", "serves_properties": ["C01", "C03", "C04", "C05", "C06", "C07", "C08", "C10", "C19"],
     "kind_free_text": "breadth-first exhaustive enumeration of token sequences up to a length bound per decoder alphabet, canonicalised to bytes, executed on the real scan() with the shipped decoders"},
]
CLAIMS = {
    "C06": dict(engine="hitx", design_ref="DESIGN.md 3 (E2), 4 (C06)",
                technique="explicit-state enumeration of hit configurations + conformance of every execution with a reference machine",
                text="Every configuration of <=3 hits (9 kinds, all intervals, all registry orders, depth budgets -1..3, 4 recursion modes) over a 4/5-byte text, and the shipped decoders' hit streams on every token sequence of the scan-level families, is executed on the real engine and must produce exactly the model's tree. Exhaustive within the bound; right level because the engine's behaviour depends only on order/overlap/kind of a handful of hits.",
                note="Trusted: the 40-line reference machine (refs/engine_model.py), CPython sorted() stability. Bound: K<=3 (K=4 in sort order only), N<=5."),
}
NOT_APPLICABLE = {pid: "check not built yet (work in progress; will be claimed or justified before the end)" for pid in
                  ["C01","C02","C03","C04","C05","C07","C08","C09","C10","C11","C12","C13","C14","C15","C16","C17","C18","C19","C20"]}
