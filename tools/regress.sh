#!/bin/bash
# usage: tools/regress.sh <fix-commit> <check ids...>
# Re-introduces the defect a fix commit repaired (reverse patch on a scratch worktree of /repo's HEAD) and runs the checks there.
c="$1"; shift
wt=$(mktemp -d /tmp/regress.XXXX)
git -C /repo worktree add -q --detach "$wt" HEAD || exit 3
cp /repo/src/multidecoder/_version.py "$wt/src/multidecoder/_version.py" 2>/dev/null  # generated file, not tracked
git -C /repo diff "$c" "$c~1" > "$wt.diff"
( cd "$wt" && (git apply "$wt.diff" 2>/dev/null || git apply -3 "$wt.diff" 2>/dev/null || git apply --unidiff-zero <(git -C /repo diff -U0 "$c" "$c~1")) ) || { echo "revert $c: PATCH FAILED"; git -C /repo worktree remove --force "$wt"; rm -f "$wt.diff"; exit 3; }
suite=$(cd "$wt" && PYTHONPATH="$wt/src" /venv/bin/python -m pytest -q -p no:cacheprovider 2>&1 | tail -1)
for p in "$@"; do
  out=$(VERIF_REPO="$wt" /verif/bin/check "$p" --no-confirm 2>&1)
  n=$(echo "$out" | grep -c "^VIOLATION")
  echo "revert $c [suite: $suite] -> $p: $n violation signatures; $(echo "$out" | grep -m1 'clause' | cut -c1-160)"
done
git -C /repo worktree remove --force "$wt"; rm -f "$wt.diff"
