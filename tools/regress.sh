#!/bin/bash
# usage: tools/regress.sh <fix-commit> <check ids...>  -- re-introduce the defect a fix commit repaired and run the checks
c="$1"; shift
d=$(mktemp -d /tmp/regress.XXXX)
git -C /repo diff -U0 "$c" "$c~1" > "$d/rev.diff"
for p in "$@"; do
  out=$(/verif/tools/with_patch.sh "$d/rev.diff" /verif/bin/check "$p" --no-confirm 2>&1)
  if echo "$out" | grep -q "patch does not apply"; then echo "revert $c: PATCH FAILED"; continue; fi
  n=$(echo "$out" | grep -c "^VIOLATION")
  echo "revert $c -> $p: $n violation signatures; $(echo "$out" | grep -m1 'clause' | cut -c1-200)"
done
rm -rf "$d"
