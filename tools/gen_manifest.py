#!/usr/bin/env python3
"""Regenerate /verif/MANIFEST.json from the table below (single source of truth for what is claimed)."""
import json, os, sys
HERE = os.path.dirname(os.path.dirname(os.path.abspath(__file__)))
sys.path.insert(0, HERE)
from tools.claims import CLAIMS, NOT_APPLICABLE, ENGINES, HOOK_COMMITS  # noqa: E402

checks = []
for pid, c in sorted(CLAIMS.items()):
    checks.append({
        "property_id": pid,
        "quick_cmd": f"bin/check {pid} --tier quick",
        "thorough_cmd": f"bin/check {pid} --tier thorough",
        "evidence_file": f"/verif/evidence/{pid}.json",
        "replay_cmd_template": f"bin/check {pid} --replay {{path}}",
        "engine": c["engine"],
        "level_claimed": {"category": "model_checking", "text": c["text"], "design_ref": c["design_ref"]},
        "level_note": c["note"],
        "technique": c["technique"],
    })
manifest = {
    "version": 1,
    "setup_cmd": "bin/setup",
    "hooks": {
        "guard": "MULTIDECODER_VERIF",
        "enable": "bin/check exports MULTIDECODER_VERIF=1; no source hook exists in /repo (all observation points are reachable from outside: registry wrappers, os/builtins seams, sys.settrace), so the guard changes nothing in the library",
        "baseline_off_cmd": "cd /repo && env -u MULTIDECODER_VERIF /venv/bin/python -m pytest -ra -q -p no:cacheprovider --timeout=900 --continue-on-collection-errors",
        "source_commits": HOOK_COMMITS,
        "add_only": True,
    },
    "engines": ENGINES,
    "checks": checks,
    "not_applicable": [{"property_id": k, "reason": v} for k, v in sorted(NOT_APPLICABLE.items())],
    "notes": "All checks: exit 0 = held on everything explored (KNOWN-FINDING lines for entries of /verif/known_findings.json), exit 1 + 'VIOLATION property=<id> replay=<path>' otherwise, exit 2 = harness error. VERIF_SEED only rotates exploration order and pins PYTHONHASHSEED; coverage is identical for every seed. Fix commits in /repo are listed in known_findings.json (status fixed).",
}
with open(os.path.join(HERE, "MANIFEST.json"), "w") as f:
    json.dump(manifest, f, indent=1)
print("wrote MANIFEST.json with", len(checks), "checks;", len(manifest["not_applicable"]), "not applicable")
