#!/bin/bash
# usage: tools/with_patch.sh <patch.diff> <command...>   -- apply a patch to /repo's working tree, run, always restore
set -u
patch="$1"; shift
if ! git -C /repo diff --quiet; then echo "refusing: /repo working tree is dirty" >&2; exit 3; fi
git -C /repo apply "$patch" 2>/dev/null || git -C /repo apply --unidiff-zero "$patch" || { echo "patch does not apply" >&2; exit 3; }
"$@"; rc=$?
git -C /repo checkout -- . ; git -C /repo status --short | grep -v '^??' >&2
exit $rc
