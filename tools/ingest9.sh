#!/bin/bash
# usage: tools/ingest9.sh <ID>  -- copy a round-9 sub-agent result into seeded/<ID>-i and evaluate it against its target check
p="$1"; d=/verif/seeded/$p-i
mkdir -p "$d" && cp /tmp/wt9/$p.out/patch.diff /tmp/wt9/$p.out/demo.py "$d/" || exit 2
/verif/tools/eval_mutant.sh "$d" $p
