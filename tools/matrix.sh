#!/bin/bash
# usage: tools/matrix.sh <out file> [seeded ids...]   -- run every quick check against every seeded change (scratch worktrees)
out="$1"; shift
ids="$@"; [ -z "$ids" ] && ids=$(ls /verif/seeded)
all="C01 C02 C03 C04 C05 C06 C07 C08 C09 C10 C11 C12 C13 C14 C15 C16 C17 C18 C19 C20"
for m in $ids; do
  /verif/tools/eval_mutant.sh /verif/seeded/$m $all 2>&1 | grep '^check' | sed "s/^/$m /" | cut -c1-200 >> "$out"
done
