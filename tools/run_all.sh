#!/bin/bash
# usage: tools/run_all.sh [quick|thorough] [ids...]   -- run checks one after another, print one summary line each
tier="${1:-quick}"; shift
ids="$@"; [ -z "$ids" ] && ids="C01 C02 C03 C04 C05 C06 C07 C08 C09 C10 C11 C12 C13 C14 C15 C16 C17 C18 C19 C20"
for p in $ids; do
  out=$("$(dirname "$0")/../bin/check" $p --tier $tier 2>&1); rc=$?
  echo "$p rc=$rc $(echo "$out" | grep -c '^VIOLATION') viol, $(echo "$out" | grep -c '^KNOWN-FINDING') known | $(echo "$out" | tail -1 | cut -c1-230)"
  echo "$out" | grep -E '^VIOLATION|HARNESS' | head -3
done
