#!/bin/bash
# usage: tools/eval_mutant.sh <dir with patch.diff and demo.py> <check ids...>
# Confirms a seeded change: applies to /repo's HEAD, unedited suite stays green, demo fails with it and passes without; then runs the checks.
d="$1"; shift
cd /repo || exit 3
if ! git diff --quiet; then echo "refusing: /repo dirty"; exit 3; fi
if grep -q '^+++ b/tests/' "$d/patch.diff"; then echo "INVALID: patch edits tests"; exit 2; fi
git apply --check "$d/patch.diff" 2>/dev/null || { echo "INVALID: patch does not apply to /repo HEAD"; exit 2; }
echo -n "demo without change: "; (cd "$d" && PYTHONPATH=/repo/src timeout 300 /venv/bin/python demo.py >/dev/null 2>&1; echo "rc=$?")
git apply "$d/patch.diff"
echo -n "suite with change: "; /venv/bin/python -m pytest -q -p no:cacheprovider 2>&1 | tail -1
echo -n "demo with change: "; (cd "$d" && PYTHONPATH=/repo/src timeout 300 /venv/bin/python demo.py >/dev/null 2>&1; echo "rc=$?")
for p in "$@"; do
  out=$(/verif/bin/check "$p" --no-confirm 2>&1)
  echo "check $p: $(echo "$out" | grep -c '^VIOLATION') violation signatures; $(echo "$out" | grep -m1 'clause' | cut -c1-260)"
done
git checkout -- . ; git status --short | grep -v '^??'
