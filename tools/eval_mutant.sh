#!/bin/bash
# usage: tools/eval_mutant.sh <dir with patch.diff and demo.py> <check ids...>
# Confirms a seeded change on a scratch worktree of /repo's HEAD (never in /repo itself): the patch applies, the unedited suite
# stays green, the demo fails with it and passes without; then runs the given checks against that worktree.
d="$1"; shift
wt=$(mktemp -d /tmp/evalwt.XXXX)
git -C /repo worktree add -q --detach "$wt" HEAD || exit 3
cp /repo/src/multidecoder/_version.py "$wt/src/multidecoder/_version.py" 2>/dev/null  # generated file, not tracked
cleanup() { git -C /repo worktree remove --force "$wt" 2>/dev/null; }
trap cleanup EXIT
if grep -q '^+++ b/tests/' "$d/patch.diff"; then echo "INVALID: patch edits tests"; exit 2; fi
echo -n "demo without change: "; (cd "$d" && PYTHONPATH="$wt/src" timeout 300 /venv/bin/python demo.py >/dev/null 2>&1; echo "rc=$?")
(cd "$wt" && git apply "$d/patch.diff") || { echo "INVALID: patch does not apply to /repo HEAD"; exit 2; }
echo -n "suite with change: "; (cd "$wt" && PYTHONPATH="$wt/src" /venv/bin/python -m pytest -q -p no:cacheprovider 2>&1 | tail -1)
echo -n "demo with change: "; (cd "$d" && PYTHONPATH="$wt/src" timeout 300 /venv/bin/python demo.py >/dev/null 2>&1; echo "rc=$?")
for p in "$@"; do
  if [ -n "$CONFIRM" ]; then out=$(VERIF_REPO="$wt" /verif/bin/check "$p" 2>&1); else out=$(VERIF_REPO="$wt" /verif/bin/check "$p" --no-confirm 2>&1); fi
  echo "check $p: $(echo "$out" | grep -c '^VIOLATION') violation signatures; $(echo "$out" | grep -m1 'clause' | cut -c1-230)"
  echo "$out" | grep -E "HARNESS" | head -2
done
