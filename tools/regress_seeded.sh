#!/bin/bash
# usage: [CONFIRM=1] tools/regress_seeded.sh <out file> [seeded ids...]  -- every seeded change against its own target check (scratch worktrees of /repo HEAD)
out="$1"; shift
ids="$@"; [ -z "$ids" ] && ids=$(ls /verif/seeded)
: > "$out"
for m in $ids; do
  p=$(python3 -c "import json;print(json.load(open('/verif/seeded/$m/meta.json'))['property'])")
  r=$(/verif/tools/eval_mutant.sh /verif/seeded/$m $p 2>&1 | grep -E '^check|INVALID|^demo|^suite|HARNESS' | tr '\n' ' ' | cut -c1-260)
  echo "$m $r" >> "$out"
done
echo DONE >> "$out"
